"""C14 -- substituting parameters commutes with evaluation.

Space: every parametrised box class (rotations and controlled rotations and their daggers,
pure / mixed / sqrt scalars, classical gates and their daggers, tensor boxes, ZX spiders and
scalars) x a menu of expressions in two real symbols x every way of supplying a substitution;
every circuit / diagram up to the depth bound over that alphabet; a grid of values.
Oracle: numeric agreement of  d.subs(s).eval()  with  d.eval().subs(s)  (pure and mixed),
lambdify vs subs, preserved structure (dom, cod, classes, dagger flags, mixedness), reported
free symbols vs the symbols of the alphabet.
"""
import itertools

import numpy as np

from mc import ref, build, qref
from mc.core import Part, pmap, digest, safe

VALUES = [0.17, -0.6, 1.3]
EXPRS = ["x", "2 * x", "x + y", "x * y", "x ** 2", "x + 0.5", "-x", "y"]


def _sig(kind, params):
    return "C14:%s:%s" % (kind, digest(params))


def syms():
    import sympy
    return sympy.symbols("x y", real=True)


def namespace(cls):
    k = build.kit(cls)
    ns = dict(k.ns)
    x, y = syms()
    ns.update(x=x, y=y)
    import sympy
    ns["Rational"] = sympy.Rational
    if cls == "tensor":
        ns["Box"] = k.Box
        ns["poly"] = lambda v: v * v + 2 * v
    return ns


def box_exprs(cls, quick):
    es = EXPRS[:4] + ["x ** 2"] if quick else EXPRS
    out = []
    if cls == "circuit":
        for r in ("Rx", "Ry", "Rz", "CU1", "CRz", "CRx"):
            for e in (es if r in ("Rx", "Rz", "CRz") else es[:3]):
                out.append("%s(%s)" % (r, e))
                if e in ("x", "x + y"):
                    out.append("%s(%s).dagger()" % (r, e))
        for e in es[:4]:
            out += ["scalar(%s)" % e, "scalar(%s, is_mixed=True)" % e, "sqrt(%s ** 2 + 1)" % e.replace("x", "x", 1),
                    "MixedScalar(%s)" % e]
        out += ["scalar(1j * x)", "scalar(x + 1j * y)",
                "ClassicalGate('g', 1, 1, [x, 1 - x, y, 1 - y])", "ClassicalGate('g', 1, 2, [x, y, 0, 1, 1, 0, x * y, 2])",
                "ClassicalGate('g', 1, 2, [x, y, 0, 1, 1, 0, x * y, 2]).dagger()"]
    elif cls == "tensor":
        out += ["Box('a', Dim(2), Dim(2), [x, y, 1, x * y])", "Box('b', Dim(2), Dim(3), [x, 0, 1, y, x + y, 2])",
                "Box('c', Dim(1), Dim(2), [x ** 2, 1j * y])", "Box('a', Dim(2), Dim(2), [x, y, 1, x * y]).dagger()",
                "Box('s', Dim(1), Dim(1), [x + 1j * y])", "Box('b', Dim(2), Dim(3), [x, 0, 1, y, x + y, 2]).dagger()",
                "Box('ox', Dim(2), Dim(2), [x, 1, 0, 2 * x])", "Box('oy', Dim(2), Dim(2), [y, 1, 0, y ** 2])",
                "Box('ox', Dim(2), Dim(2), [x, 1, 0, 2 * x]).dagger()"]
    elif cls == "zx":
        for e in es[:5]:
            out += ["Z(1, 2, %s)" % e, "X(2, 1, %s)" % e, "Z(1, 1, %s).dagger()" % e]
        out += ["scalar(x)", "scalar(x + 1j * y)", "scalar(1j * x).dagger()", "Z(0, 1, x + y)"]
    return out


def plain_exprs(cls):
    if cls == "circuit":
        return ["H", "CX", "Ket(0)", "Ket(1, 0)", "Bra(1)", "Measure()", "Discard()", "Rz(0.3)", "X"]
    if cls == "tensor":
        return ["Box('n', Dim(2), Dim(2), [1, 2j, 3, 4])", "Swap(Dim(2), Dim(3))", "Spider(1, 2, 2)"]
    return ["H", "SWAP", "Z(1, 2, 0.25)", "X(1, 0)"]


SUBS = [("float", [("x", "0.17")]), ("rational", [("x", "Rational(1, 3)")]), ("symbol", [("x", "y")]),
        ("expr", [("x", "y + 1")]), ("pairs", [("x", "0.17"), ("y", "-0.6")]), ("int", [("x", "2")]),
        ("y-only", [("y", "1.3")]), ("chained", [("x", "2 * y"), ("y", "0.25")]),
        # a list of pairs is applied in the order given (sympy's contract for lists): the value
        # is substituted first, *then* x becomes y (which stays); the same variable twice: first wins
        ("ordered", [("y", "0.25"), ("x", "y")]), ("twice", [("x", "0.25"), ("x", "0.75")])]


def evaluate(cls, d, mixed=False):
    """Evaluate a (possibly still symbolic) diagram of the class; returns (array, kind)."""
    if cls == "circuit":
        v = d.eval(mixed=mixed)
        return np.asarray(v.array), type(v).__name__
    if cls == "tensor":
        return np.asarray(d.eval().array), "Tensor"
    if cls == "zx":
        # ZX diagrams have no eval of their own in this version: interpret spiders with the
        # reference semantics, but on the *library's* substituted phases
        return None, "zx"
    raise ValueError(cls)


def numeric(arr, env):
    """Substitute every symbol by its grid value and convert to complex."""
    import sympy
    flat = []
    for v in np.asarray(arr, dtype=object).flatten():
        if hasattr(v, "subs"):
            v = v.subs(env)
        flat.append(complex(sympy.N(v)) if hasattr(v, "free_symbols") or not isinstance(v, (int, float, complex))
                    else complex(v))
    return np.array(flat, dtype=complex)


def zx_numeric(d, env):
    """Reference ZX value after substituting env in the phases/scalars the library holds."""
    import sympy
    from discopy.quantum import zx

    def mat_of(b, dd, dc):
        if isinstance(b, zx.Spider):
            ph = b.phase
            ph = complex(sympy.N(ph.subs(env))).real if hasattr(ph, "subs") else float(ph)
            m = qref.z_spider(len(b.dom), len(b.cod), ph)
            if isinstance(b, zx.X):
                m = qref.kron_all([qref.HAD] * len(b.dom)) @ m @ qref.kron_all([qref.HAD] * len(b.cod))
            return m
        if isinstance(b, zx.Scalar):
            v = b.data
            return np.array([[complex(sympy.N(v.subs(env))) if hasattr(v, "subs") else complex(v)]])
        return qref.zx_box_matrix(b)
    return ref.ref_eval(d, lambda a: 2, mat_of).flatten()


def structure(d):
    return [(type(b).__name__, str(getattr(b, "_name", "")), bool(b.is_dagger) if b.is_dagger is not None else None,
             bool(getattr(b, "is_mixed", False)), ref.ty_key(b.dom), ref.ty_key(b.cod)) for b in d.boxes], \
        ref.ty_key(d.dom), ref.ty_key(d.cod), list(d.offsets)


def build_diagram(cls, params):
    ns = namespace(cls)
    k = build.kit(cls)
    d = None
    for expr, off in params["layers"]:
        b = eval(expr, ns)
        if d is None:
            dom = params.get("dom")
            d = k.Diagram.id(eval(dom, ns)) if dom else k.Diagram.id(b.dom[0:0])
            if dom is None and off == 0:
                d = k.Diagram.id(b.dom)
        left, right = d.cod[:off], d.cod[off + len(b.dom):]
        d = d >> k.Diagram.id(left) @ b @ k.Diagram.id(right)
    return d, ns


def symbols_of_box(b):
    from discopy import cat
    if isinstance(b, cat.Bubble):       # the symbols of a bubble are those of the diagram inside it
        out = set()
        for c in b.inside.boxes:
            out |= symbols_of_box(c)
        return out
    if isinstance(b, cat.Sum):
        out = set()
        for t in b.terms:
            for c in t.boxes:
                out |= symbols_of_box(c)
        return out
    out = set()
    data = b.data if not hasattr(b, "phase") else b.phase
    for v in np.asarray(data, dtype=object).flatten() if data is not None else []:
        out |= set(getattr(v, "free_symbols", set()))
    return out


def expected_symbols(params, ns):
    out = set()
    for expr, _ in params["layers"]:
        out |= symbols_of_box(eval(expr, ns))
    return out


def check_symbols(params):
    """Diagrams containing bubbles (and sums as boxes): the reported free symbols are exactly the
    symbols of the boxes, those inside bubbles included; substitution must work on them too."""
    cls = params["cls"]
    d, ns = build_diagram(cls, params)
    out = []
    want = expected_symbols(params, ns)
    if set(d.free_symbols) != want:
        out.append((_sig("free-symbols", params), "[%s] %s: free_symbols = %s, the boxes (bubbles included) contain %s"
                    % (cls, d, set(d.free_symbols), want)))
        return out
    for b in d.boxes:
        if set(b.free_symbols) != symbols_of_box(b):
            out.append((_sig("free-symbols-box", params), "[%s] box %s reports %s, contains %s" % (cls, b, set(b.free_symbols), symbols_of_box(b))))
            return out
    x = ns["x"]
    try:
        ds = d.subs(x, 0.5)
    except TypeError as e:
        # recorded finding: no diagram class can substitute into a bubble
        out.append(("C14:subs:bubbles-cannot-be-substituted", "[%s] %s .subs(x, 0.5) raised TypeError: %s" % (cls, d, str(e)[:100])))
        return out
    if x in set(ds.free_symbols):
        out.append((_sig("symbols-after", params), "[%s] %s: x still reported after substituting it" % (cls, d)))
    return out


def check_case(params):
    import sympy
    cls = params["cls"]
    d, ns = build_diagram(cls, params)
    x, y = ns["x"], ns["y"]
    out = []

    def bad(kind, msg):
        out.append((_sig(kind, params), "[%s] %s with %s: %s" % (cls, d, params["subs"], msg)))
    want_syms = expected_symbols(params, ns)
    if set(d.free_symbols) != want_syms:
        bad("free-symbols", "free_symbols = %s, the box parameters contain %s" % (set(d.free_symbols), want_syms))
    pairs = [(ns[a], eval(b, ns)) for a, b in params["subs"][1]]
    mode = params.get("mode", "args")
    try:
        if len(pairs) == 1 and mode == "args":
            ds = d.subs(pairs[0][0], pairs[0][1])
        elif mode == "successive":
            ds = d
            for a, b in pairs:
                ds = ds.subs(a, b)
        elif mode == "successive-reversed":
            ds = d
            for a, b in reversed(pairs):
                ds = ds.subs(a, b)
        else:
            arg = list(pairs)
            ds = d.subs(arg)
            if arg != pairs:
                bad("argument-mutated", "subs changed the list of pairs it was given: %s" % (arg,))
    except Exception as e:  # noqa
        bad("subs-raises", "subs raised %s: %s" % (type(e).__name__, str(e)[:120]))
        return out
    if structure(ds) != structure(d):
        bad("structure", "substitution changed the structure:\n   before %s\n   after  %s" % (structure(d), structure(ds)))
        return out
    errs = ref.scan(ds)
    if errs:
        bad("illtyped", "substituted diagram ill-typed: %s" % errs[:2])
        return out
    # reported free symbols after substitution
    remaining = set(want_syms)
    for a, b in pairs:
        if a in remaining:
            remaining.discard(a)
            remaining |= set(getattr(sympy.sympify(b), "free_symbols", set()))
    if mode == "successive" or mode == "successive-reversed":
        remaining = None   # depends on the order; only the numeric agreement is checked
    if remaining is not None and set(ds.free_symbols) != remaining:
        bad("free-symbols-after", "after substitution free_symbols = %s, expected %s" % (set(ds.free_symbols), remaining))
    def apply(v):
        if not hasattr(v, "subs"):
            return v
        if mode in ("successive", "successive-reversed"):
            seq = pairs if mode == "successive" else list(reversed(pairs))
            for a, b in seq:
                v = v.subs(a, b)
            return v
        return v.subs(pairs) if len(pairs) > 1 else v.subs(pairs[0][0], pairs[0][1])

    envs = [{x: val, y: -val / 2 + 0.3} for val in VALUES]
    for mixed in ((False, True) if cls == "circuit" else (False,)):
        if cls == "circuit" and not mixed and d.is_mixed:
            continue
        try:
            if cls == "zx":
                cur = {x: x, y: y}
                if mode in ("successive", "successive-reversed"):
                    for a, b in (pairs if mode == "successive" else list(reversed(pairs))):
                        cur = {k_: sympy.sympify(v).subs(a, b) for k_, v in cur.items()}
                else:
                    cur = {k_: sympy.sympify(v).subs(pairs) for k_, v in cur.items()}
                lhs_all = [zx_numeric(ds, env) for env in envs]
                rhs_all = [zx_numeric(d, {k_: complex(sympy.N(sympy.sympify(v).subs(env))).real
                                          for k_, v in cur.items()}) for env in envs]
            else:
                lhs_arr, kind_l = evaluate(cls, ds, mixed)
                sym_arr, kind_r = evaluate(cls, d, mixed)
                if kind_l != kind_r:
                    bad("eval-kind", "evaluation kinds differ: %s vs %s" % (kind_l, kind_r))
                    return out
                applied = np.array([apply(v) for v in np.asarray(sym_arr, dtype=object).flatten()], dtype=object)
                lhs_all = [numeric(lhs_arr, env) for env in envs]
                rhs_all = [numeric(applied, env) for env in envs]
                # the library's own substitution on the evaluated value (Tensor.subs / CQMap.subs)
                sym_val = d.eval(mixed=mixed) if cls == "circuit" else d.eval()
                if hasattr(sym_val, "subs") and hasattr(sym_val, "array"):
                    if mode in ("successive", "successive-reversed"):
                        lib = sym_val
                        for a, b in (pairs if mode == "successive" else list(reversed(pairs))):
                            lib = lib.subs(a, b)
                    else:
                        lib = sym_val.subs(pairs) if len(pairs) > 1 else sym_val.subs(pairs[0][0], pairs[0][1])
                    if (lib.dom, lib.cod) != (sym_val.dom, sym_val.cod):
                        bad("value-subs-type", "substituting into the evaluated %s changed its type" % type(sym_val).__name__)
                        return out
                    for env, rhs in zip(envs, rhs_all):
                        got = numeric(np.asarray(lib.array, dtype=object), env)
                        if got.shape != rhs.shape or not np.all(np.abs(got - rhs) <= 1e-9 * (1 + np.abs(rhs))):
                            bad("value-subs", "eval().subs(%s) of the %s differs from substituting its entries: %s vs %s"
                                % (pairs, type(sym_val).__name__, np.round(got, 5).tolist()[:6], np.round(rhs, 5).tolist()[:6]))
                            return out
        except Exception as e:  # noqa
            bad("eval-raises", "evaluating (mixed=%s) raised %s: %s" % (mixed, type(e).__name__, str(e)[:140]))
            return out
        for env, lhs, rhs in zip(envs, lhs_all, rhs_all):
            if lhs.shape != rhs.shape or not np.all(np.abs(lhs - rhs) <= 1e-9 * (1 + np.abs(rhs))):
                bad("subs-vs-eval", "subs then eval (mixed=%s) differs from eval then subs at x=%s, y=%s: %s vs %s"
                    % (mixed, env[x], env[y], np.round(lhs, 5).tolist()[:6], np.round(rhs, 5).tolist()[:6]))
                return out
    # lambdify agrees with subs on numbers
    sy = sorted(want_syms, key=str)
    if sy:
        vals = [0.17, -0.6][:len(sy)]
        try:
            fn = d.lambdify(*sy)
            first = fn(*[v + 1 for v in vals])      # the compiled function is reusable: called with
            dl = fn(*vals)                          # other values first, then twice with ours
            dl2 = fn(*vals)
            dsub = d.subs(list(zip(sy, vals)))
            if structure(dl2) != structure(dl) or ref.diagram_key(dl2) != ref.diagram_key(dl) \
                    or structure(first) != structure(d):
                bad("lambdify-reuse", "calling the lambdified diagram again gives a different diagram: %s, then %s, then %s"
                    % (first, dl, dl2))
                return out
        except Exception as e:  # noqa
            bad("lambdify-raises", "lambdify/subs raised %s: %s" % (type(e).__name__, str(e)[:140]))
            return out
        if structure(dl) != structure(d):
            bad("lambdify-structure", "lambdify changed the structure:\n   before %s\n   after  %s"
                % (structure(d), structure(dl)))
            return out
        if set(dl.free_symbols) or set(dsub.free_symbols):
            bad("lambdify-free-symbols", "free symbols left after substituting all of them: %s / %s"
                % (set(dl.free_symbols), set(dsub.free_symbols)))
        try:
            if cls == "zx":
                a, b = zx_numeric(dl, {}), zx_numeric(dsub, {})
            else:
                mixed = cls == "circuit" and d.is_mixed
                a = numeric(evaluate(cls, dl, mixed)[0], {})
                b = numeric(evaluate(cls, dsub, mixed)[0], {})
        except Exception as e:  # noqa
            bad("lambdify-eval-raises", "evaluating the lambdified / fully substituted diagram raised %s: %s"
                % (type(e).__name__, str(e)[:140]))
            return out
        if a.shape != b.shape or not np.all(np.abs(a - b) <= 1e-9 * (1 + np.abs(b))):
            bad("lambdify-vs-subs", "lambdify(%s)(%s) evaluates differently from subs: %s vs %s"
                % (sy, vals, np.round(a, 5).tolist()[:6], np.round(b, 5).tolist()[:6]))
    return out


CASES = {k: safe("C14", f) for k, f in {"case": check_case, "symbols": check_symbols}.items()}


def _worker(shard):
    part = Part()
    for case, params in shard:
        res = CASES[case](params)
        part.count("transitions")
        part.count("states")
        part.seen("nontrivial", repr(sorted((k, repr(v)) for k, v in params.items())))
        for s_, msg in res:
            part.violation(s_, msg, case, params)
        if case == "case" and len(part.samples) < 1 and len(params["layers"]) == 2:
            part.sample(params)
    return part


def run(ctx):
    items = []
    for cls in ("circuit", "tensor", "zx"):
        boxes = box_exprs(cls, ctx.quick)
        plain = plain_exprs(cls)
        ns = namespace(cls)
        # single boxes x every substitution x supply modes
        for e in boxes:
            for sub in SUBS:
                modes = ["args"] if len(sub[1]) == 1 else ["pairs", "successive", "successive-reversed"]
                for mode in modes:
                    items.append(("case", dict(cls=cls, layers=[[e, 0]], subs=list(sub), mode=mode)))
        # depth-2 (and 3) diagrams: parametrised box composed with every box that fits
        allb = boxes + plain
        objs = {e: eval(e, ns) for e in allb}
        depth = 2 if ctx.quick else 3
        seqs = []
        for e1 in boxes[:: (2 if ctx.quick else 1)]:
            b1 = objs[e1]
            for e2 in allb:
                b2 = objs[e2]
                for off in range(0, len(b1.cod) - len(b2.dom) + 1):
                    if ref.ty_key(b1.cod[off:off + len(b2.dom)]) == ref.ty_key(b2.dom):
                        seqs.append([[e1, 0], [e2, off]])
                if len(b2.cod) and ref.ty_key(b2.cod[:len(b1.dom)]) == ref.ty_key(b1.dom) and len(b1.dom):
                    seqs.append([[e2, 0], [e1, 0]])
        if cls == "circuit":   # boxes that print alike but differ (rounded phase, dagger flag) in one diagram
            V = "QuantumGate('V', 1, [1, 0, 0, 1j])"
            for e1 in ("Rx(x)", "Rz(x + y)", "scalar(x)"):
                off = [[e1, 0]] if not e1.startswith("scalar") else []
                seqs.append(off + [["Rz(0.25)", 0], ["Rz(0.2501)", 0]] if off else [["Rz(0.25)", 0], ["Rz(0.2501)", 0], [e1, 1]])
                seqs.append(off + [[V, 0], [V + ".dagger()", 0]] if off else [[V, 0], [V + ".dagger()", 0], [e1, 1]])
        if ctx.quick:
            seqs = seqs[::3] + seqs[-6:]
            ctx.cap_hit("%s: two-box diagrams every 3rd (all single boxes complete)" % cls)
        else:
            seqs = seqs[::2] + seqs[-6:]
            ctx.cap_hit("%s: two-box diagrams every 2nd over the larger expression menu (all single boxes complete)" % cls)
        for seq in seqs:
            for sub in (SUBS[0], SUBS[3], SUBS[4], SUBS[7], SUBS[8]):
                mode = "args" if len(sub[1]) == 1 else "pairs"
                items.append(("case", dict(cls=cls, layers=seq, subs=list(sub), mode=mode)))
    # bubbles: symbols that occur only inside a bubble, alone and next to other boxes
    bub = ["Box('p', Dim(2), Dim(2), [x, 1, 0, 2]).bubble(func=poly)", "Box('p', Dim(2), Dim(2), [1, y, 0, 2]).bubble(func=poly)",
           "(Box('p', Dim(2), Dim(2), [x, 1, 0, 2]) >> Box('q', Dim(2), Dim(2), [1, 0, y, 2])).bubble(func=poly)",
           "Box('p', Dim(2), Dim(2), [x * y, 1, 0, 2]).bubble(func=poly).bubble(func=poly)"]
    others = ["Box('n', Dim(2), Dim(2), [1, 2j, 3, 4])", "Box('ox', Dim(2), Dim(2), [x, 1, 0, 2 * x])", "Box('oy', Dim(2), Dim(2), [y, 1, 0, y ** 2])"]
    for b in bub:
        items.append(("symbols", dict(cls="tensor", layers=[[b, 0]])))
        for o in others:
            items.append(("symbols", dict(cls="tensor", layers=[[b, 0], [o, 0]])))
            items.append(("symbols", dict(cls="tensor", layers=[[o, 0], [b, 0]])))
    ctx.bounds.update(expressions=EXPRS, substitutions=[s[0] for s in SUBS], values=VALUES,
                      depth=2 if ctx.quick else 3)
    ctx.rule = ("every parametrised box x every substitution x every way of supplying it, and every "
                "2-box diagram (parametrised box with every box that composes with it): subs-then-eval == "
                "eval-then-subs on the value grid (pure and mixed), structure preserved, free symbols, "
                "lambdify == subs. nontrivial = distinct cases")
    ctx.assumptions = ["sympy symbols are real (complex symbols make conjugate(x) opaque)",
                       "tolerance 1e-9 relative; sympy.N for numeric conversion",
                       "ZX diagrams have no eval in this version: their value is the textbook semantics applied "
                       "to the phases/scalars the library holds after substitution"]
    for p in pmap(_worker, build.shards(items, 128)):
        ctx.merge(p)
    ctx.counters["traces_validated_against_impl"] = ctx.counters.get("transitions", 0)
