"""Bounded exhaustive exploration (model checking) of discopy properties C01..C20."""
