"""C02 -- strict dagger-monoidal and sum laws as equalities, in every diagram class.

Space: per class (cat, monoidal, rigid, tensor, circuit, zx, biclosed, cartesian) a pool of
generators and composites; every value (unary laws, all slice points), every ordered pair
(composition/dagger/whiskering laws), every composable triple and every triple of a sub-pool
(associativity), every parallel pair x every third value (bilinearity of sums).
Oracle: `==` between the two sides as returned; a bare box is compared through the one-box
diagram that wraps it.
"""
import itertools

from mc import ref, build, pools
from mc.core import Part, pmap, digest, safe

CLASSES = ("cat", "monoidal", "rigid", "tensor", "circuit", "zx", "biclosed", "cartesian")
NO_DAGGER_OK = ("biclosed", "cartesian")


def _sig(kind, params):
    return "C02:%s:%s" % (kind, digest(params))


# ------------------------------------------------------------------ cat pool

CAT_BOXES = {"f": ("x", "y", None), "g": ("y", "z", None), "h": ("z", "x", None),
             "e": ("x", "x", None), "k": ("y", "y", 1), "z0": ("x", "x", 0), "zl": ("y", "y", []), "fd": ("y", "x", "dagger-of-f"),
             "gd": ("z", "y", "dagger-of-g")}


def cat_build(recipe):
    from discopy import cat
    _, start, names = recipe
    a = cat.Id(cat.Ob(start))
    for n in names:
        dom, cod, data = CAT_BOXES[n]
        if isinstance(data, str):
            src = CAT_BOXES[n[0]]
            b = cat.Box(n[0], cat.Ob(src[0]), cat.Ob(src[1])).dagger()
        else:
            b = cat.Box(n, cat.Ob(dom), cat.Ob(cod), data=data)
        a = a >> b
    return a


def cat_recipes(depth=3):
    out = [("cat", o, ()) for o in "xyz"]
    level = list(out)
    for _ in range(depth):
        nxt = []
        for (_, start, names) in level:
            cur = CAT_BOXES[names[-1]][1] if names else start
            for n, (dom, cod, _) in sorted(CAT_BOXES.items()):
                if dom == cur:
                    nxt.append(("cat", start, names + (n,)))
        out += nxt
        level = nxt
    return out


def make(recipe):
    recipe = _norm(recipe)
    if recipe[0] == "cat":
        return cat_build(recipe)
    if recipe[0] == "zoo":
        from mc import zoo
        return zoo.value(recipe[1], recipe[2])
    return build.build(recipe)


def _norm(r):
    def t(x):
        return tuple(t(y) for y in x) if isinstance(x, (list, tuple)) else x
    return t(r)


def pool_of(cls, size):
    if cls == "cat":
        rs = cat_recipes()
        return rs[:size] if len(rs) <= size else rs[:12] + rs[12::max(1, (len(rs) - 12) // (size - 12))][:size - 12]
    return pools.pool(cls, size)


# ------------------------------------------------------------------ equality used by the laws

def is_sum(v):
    from discopy import cat
    return isinstance(v, cat.Sum)


def ident(v, ty):
    from discopy import cat, monoidal
    if isinstance(v, monoidal.Diagram):
        return v.id(ty)
    return cat.Id(ty)


def wrap(v):
    return ident(v, v.dom) >> v


def same(a, b):
    """`==` on returned values; bare boxes compared through the one-box diagram wrapping them."""
    if is_sum(a) or is_sum(b):
        if not (is_sum(a) and is_sum(b)):
            return False
        return a.dom == b.dom and a.cod == b.cod and len(a.terms) == len(b.terms) and \
            all(same(x, y) for x, y in zip(a.terms, b.terms))
    wa, wb = wrap(a), wrap(b)
    return bool(wa == wb) and bool(wb == wa)


def tykey(t):
    from discopy import monoidal
    return ref.ty_key(t) if isinstance(t, monoidal.Ty) else ("ob", t.name)


def _safe_key(t):
    try:
        return repr(tykey(t))
    except Exception:
        return repr(t)


def dagger_of(v, cls):
    """(dagger, None) or (None, reason) when this category has no dagger for that value."""
    from discopy import cat
    try:
        return v[::-1], None
    except TypeError as e:
        if cls in NO_DAGGER_OK or any(isinstance(b, cat.Bubble) for b in v.boxes):
            return None, "unsupported"   # rule boxes, python functions and bubbles have no dagger
        raise


# ------------------------------------------------------------------ cases

def check_unary(params):
    cls = params["cls"]
    d = make(params["r"])
    out = []
    snaps = [ref.snapshot(v) for v in (d,)]

    def bad(kind, msg):
        out.append((_sig(kind, params), "[%s] %s: %s" % (cls, d, msg)))
    if not same(d >> ident(d, d.cod), d) or not same(ident(d, d.dom) >> d, d):
        bad("unit-then", "f >> Id(cod) == f == Id(dom) >> f fails")
    if cls != "cat":
        e = d.dom[0:0]
        if not same(d @ ident(d, e), d) or not same(ident(d, e) @ d, d):
            bad("unit-tensor", "f @ Id() == f == Id() @ f fails")
    dg, why = dagger_of(d, cls)
    if dg is not None:
        if tykey(dg.dom) != tykey(d.cod) or tykey(dg.cod) != tykey(d.dom):
            bad("dagger-types", "f[::-1] : %s -> %s" % (dg.dom, dg.cod))
        back, _ = dagger_of(dg, cls)
        if back is None or not same(back, d):
            bad("dagger-involution", "f[::-1][::-1] = %s" % (back,))
        idd, _ = dagger_of(ident(d, d.dom), cls)
        if idd is None or not same(idd, ident(d, d.dom)):
            bad("dagger-id", "Id[::-1] != Id")
    else:
        params["_nodagger"] = True
    n = len(d)
    for i in range(n + 1):
        left, right = d[:i], d[i:]
        if not same(left >> right, d):
            bad("slice", "d[:%d] >> d[%d:] = %s" % (i, i, left >> right))
            break
        if tykey(left.dom) != tykey(d.dom) or tykey(right.cod) != tykey(d.cod) \
                or tykey(left.cod) != tykey(right.dom):
            bad("slice-types", "d[:%d] : %s -> %s, d[%d:] : %s -> %s"
                % (i, left.dom, left.cod, i, right.dom, right.cod))
            break
    for i in range(n + 1):
        for j in range(i, n + 1):
            if not same(d[:i] >> d[i:j] >> d[j:], d):
                bad("slice3", "d[:%d] >> d[%d:%d] >> d[%d:] != d" % (i, i, j, j))
                return out
    if [ref.snapshot(v) for v in (d,)] != snaps:
        out.append((_sig("operand-mutated", params), "[%s] an operand (d) is no longer the value it was before the operations" % (cls,)))
    return out


def check_binary(params):
    cls = params["cls"]
    f, g = make(params["r1"]), make(params["r2"])
    out = []
    snaps = [ref.snapshot(v) for v in (f, g,)]

    def bad(kind, msg):
        out.append((_sig(kind, params), "[%s] f=%s, g=%s: %s" % (cls, f, g, msg)))
    if tykey(f.cod) == tykey(g.dom):
        fg = f >> g
        if tykey(fg.dom) != tykey(f.dom) or tykey(fg.cod) != tykey(g.cod):
            bad("then-types", "f >> g : %s -> %s" % (fg.dom, fg.cod))
        if not same(g << f, fg):
            bad("lshift", "g << f != f >> g")
        a, _ = dagger_of(fg, cls)
        fd, _ = dagger_of(f, cls)
        gd, _ = dagger_of(g, cls)
        if a is not None and fd is not None and gd is not None:
            if not same(a, gd >> fd):
                bad("dagger-then", "(f >> g)[::-1] = %s but g[::-1] >> f[::-1] = %s" % (a, gd >> fd))
        params["_composable"] = True
    if cls != "cat":
        t = f @ g
        w = f @ ident(f, g.dom) >> ident(f, f.cod) @ g
        if not same(t, w):
            bad("tensor-whisker", "f @ g = %s but f @ Id(g.dom) >> Id(f.cod) @ g = %s" % (t, w))
        if ref.ty_key(t.dom) != ref.ty_key(f.dom) + ref.ty_key(g.dom) or \
                ref.ty_key(t.cod) != ref.ty_key(f.cod) + ref.ty_key(g.cod):
            bad("tensor-types", "f @ g : %s -> %s" % (t.dom, t.cod))
    if [ref.snapshot(v) for v in (f, g,)] != snaps:
        out.append((_sig("operand-mutated", params), "[%s] an operand (f, g) is no longer the value it was before the operations" % (cls,)))
    return out


def check_ternary(params):
    cls = params["cls"]
    f, g, h = make(params["r1"]), make(params["r2"]), make(params["r3"])
    out = []
    snaps = [ref.snapshot(v) for v in (f, g, h,)]

    def bad(kind, msg):
        out.append((_sig(kind, params), "[%s] f=%s, g=%s, h=%s: %s" % (cls, f, g, h, msg)))
    if tykey(f.cod) == tykey(g.dom) and tykey(g.cod) == tykey(h.dom):
        if not same((f >> g) >> h, f >> (g >> h)):
            bad("assoc-then", "(f >> g) >> h != f >> (g >> h)")
        if not same(f.then(g, h), (f >> g) >> h):
            bad("then-nary", "f.then(g, h) != (f >> g) >> h")
        params["_composable"] = True
    if cls != "cat" and params.get("tensor", True):
        if not same((f @ g) @ h, f @ (g @ h)):
            bad("assoc-tensor", "(f @ g) @ h = %s but f @ (g @ h) = %s" % ((f @ g) @ h, f @ (g @ h)))
        if not same(f.tensor(g, h), (f @ g) @ h):
            bad("tensor-nary", "f.tensor(g, h) = %s but (f @ g) @ h = %s" % (f.tensor(g, h), (f @ g) @ h))
        if tykey(f.dom.tensor(g.dom, h.dom)) != tykey(f.dom @ g.dom @ h.dom) \
                or tykey((f @ g @ h).dom) != tykey(f.dom.tensor(g.dom, h.dom)):
            bad("type-tensor-nary", "dom.tensor(dom, dom) disagrees with dom @ dom @ dom")
    if [ref.snapshot(v) for v in (f, g, h,)] != snaps:
        out.append((_sig("operand-mutated", params), "[%s] an operand (f, g, h) is no longer the value it was before the operations" % (cls,)))
    return out


def check_sum(params):
    cls = params["cls"]
    f, g, h = make(params["r1"]), make(params["r2"]), make(params["r3"])
    out = []
    snaps = [ref.snapshot(v) for v in (f, g, h,)]

    def bad(kind, msg):
        out.append((_sig(kind, params), "[%s] f=%s, g=%s, h=%s: %s" % (cls, f, g, h, msg)))
    S = f + g
    zero = f.sum([], f.dom, f.cod)
    if not is_sum(S) or len(S.terms) != 2:
        bad("sum-shape", "f + g = %r" % (S,))
        return out
    if not same(zero + f, f.sum([f])) or not same(f + zero, f.sum([f])):
        bad("sum-unit", "0 + f, f + 0 != Sum([f])")
    # NB: associativity of `+` is not claimed by C02 and does not hold for a bare box on the
    # left of a Sum (Python tries Sum.__radd__ first because Sum subclasses Box): not checked.
    if tykey(f.cod) == tykey(h.dom):
        if not same(S >> h, (f >> h) + (g >> h)):
            bad("sum-then-right", "(f + g) >> h = %s" % (S >> h,))
        z = zero >> h
        if not is_sum(z) or z.terms or tykey(z.dom) != tykey(f.dom) or tykey(z.cod) != tykey(h.cod):
            bad("zero-then", "0 >> h = %r" % (z,))
        params["_hit"] = True
    if tykey(h.cod) == tykey(f.dom):
        if not same(h >> S, (h >> f) + (h >> g)):
            bad("sum-then-left", "h >> (f + g) = %s" % (h >> S,))
        z = h >> zero
        if not is_sum(z) or z.terms or tykey(z.dom) != tykey(h.dom) or tykey(z.cod) != tykey(f.cod):
            bad("then-zero", "h >> 0 = %r" % (z,))
        params["_hit"] = True
    if cls != "cat":
        if not same(S @ h, (f @ h) + (g @ h)):
            bad("sum-tensor-right", "(f + g) @ h = %s but (f @ h) + (g @ h) = %s"
                % (S @ h, (f @ h) + (g @ h)))
        if not same(h @ S, (h @ f) + (h @ g)):
            bad("sum-tensor-left", "h @ (f + g) = %s but (h @ f) + (h @ g) = %s"
                % (h @ S, (h @ f) + (h @ g)))
        z = zero @ h
        if not is_sum(z) or z.terms or ref.ty_key(z.dom) != ref.ty_key(f.dom) + ref.ty_key(h.dom) \
                or ref.ty_key(z.cod) != ref.ty_key(f.cod) + ref.ty_key(h.cod):
            bad("zero-tensor", "0 @ h = %r : %s -> %s" % (z, z.dom, z.cod))
        z = h @ zero
        if not is_sum(z) or z.terms or ref.ty_key(z.dom) != ref.ty_key(h.dom) + ref.ty_key(f.dom) \
                or ref.ty_key(z.cod) != ref.ty_key(h.cod) + ref.ty_key(f.cod):
            bad("tensor-zero", "h @ 0 = %r : %s -> %s" % (z, z.dom, z.cod))
        if not same((f + g) @ (f + g), (f @ f) + (f @ g) + (g @ f) + (g @ g)):
            bad("sum-tensor-sum", "(f + g) @ (f + g) is not the 4-term expansion in order")
    fd, _ = dagger_of(f, cls)
    gd, _ = dagger_of(g, cls)
    if fd is not None and gd is not None:
        sd = S[::-1]
        if not same(sd, fd + gd):
            bad("sum-dagger", "(f + g)[::-1] = %s" % (sd,))
        zd = zero[::-1]
        if not is_sum(zd) or zd.terms or tykey(zd.dom) != tykey(f.cod) or tykey(zd.cod) != tykey(f.dom):
            bad("zero-dagger", "0[::-1] = %r" % (zd,))
    if [ref.snapshot(v) for v in (f, g, h,)] != snaps:
        out.append((_sig("operand-mutated", params), "[%s] an operand (f, g, h) is no longer the value it was before the operations" % (cls,)))
    return out


def histories(d, cls):
    """Values that must equal d but were reached another way (slices, double dagger, recomposition,
    units): operations must treat them exactly like d."""
    n = len(d)
    out = [("d[0:%d]" % n, lambda: d[0:n]), ("d[:]", lambda: d[:]), ("d[-%d:]" % n if n else "d[0:]", lambda: d[-n:] if n else d[0:])]
    for k in range(1, n):
        out.append(("d[:%d] >> d[%d:]" % (k, k), lambda k=k: d[:k] >> d[k:]))
    out.append(("Id(dom) >> d >> Id(cod)", lambda: ident(d, d.dom) >> d >> ident(d, d.cod)))
    if cls != "cat":
        out.append(("Id() @ d @ Id()", lambda: ident(d, d.dom[0:0]) @ d @ ident(d, d.dom[0:0])))
    dg, _ = dagger_of(d, cls)
    if dg is not None:
        out.append(("d[::-1][::-1]", lambda: d[::-1][::-1]))
        out.append(("(d[::-1])[::-1][0:%d]" % n, lambda: d[::-1][::-1][0:n]))
    return out


def check_history(params):
    """Differential oracle: a value reached through another construction history is used as an
    operand of every binary operation next to a partner p; the result must equal the result
    obtained with the freshly built value."""
    cls = params["cls"]
    d, p = make(params["r"]), make(params["p"])
    out = []
    snaps = [ref.snapshot(v) for v in (d, p)]
    ops = [("v @ p", lambda v: v @ p), ("p @ v", lambda v: p @ v)] if cls != "cat" else []
    if tykey(d.cod) == tykey(p.dom):
        ops.append(("v >> p", lambda v: v >> p))
    if tykey(p.cod) == tykey(d.dom):
        ops.append(("p >> v", lambda v: p >> v))
    if tykey(d.dom) == tykey(p.dom) and tykey(d.cod) == tykey(p.cod):
        ops.append(("v + p", lambda v: v + p))
    ops += [("v @ v", lambda v: v @ v)] if cls != "cat" else []
    ops += [("v + v", lambda v: v + v), ("v[::-1]", lambda v: dagger_of(v, cls)[0])]
    for hl, ht in histories(d, cls):
        try:
            v = ht()
        except Exception as e:  # noqa
            out.append((_sig("history-raises", [params, hl]), "[%s] d = %s: %s raised %r" % (cls, d, hl, e)))
            continue
        if not same(v, d):
            out.append((_sig("history-differs", [params, hl]), "[%s] d = %s: %s = %s is not equal to d" % (cls, d, hl, v)))
            continue
        for ol, op in ops:
            try:
                want = op(d)
            except Exception:
                continue         # not defined for d itself: nothing to compare
            try:
                got = op(v)
            except Exception as e:  # noqa
                out.append((_sig("history-op-raises", [params, hl, ol]), "[%s] d = %s, p = %s: with v = %s (== d), %s raised %r "
                            "but works with d itself" % (cls, d, p, hl, ol, e)))
                break
            if (want is None) != (got is None) or (want is not None and not same(got, want)):
                out.append((_sig("history-op-differs", [params, hl, ol]), "[%s] d = %s, p = %s: with v = %s (== d), %s = %s "
                            "but with d itself %s" % (cls, d, p, hl, ol, got, want)))
                break
    if [ref.snapshot(v) for v in (d, p)] != snaps:
        out.append((_sig("operand-mutated", params), "[%s] an operand is no longer the value it was" % (cls,)))
    return out


CASES = {k: safe("C02", f) for k, f in {"unary": check_unary, "binary": check_binary, "history": check_history,
                                        "ternary": check_ternary, "sum": check_sum}.items()}


def _worker(shard):
    part = Part()
    for case, params in shard:
        res = CASES[case](params)
        part.count("transitions")
        part.count(case + "_cases")
        if params.pop("_nodagger", False):
            part.count("dagger_unsupported")
        if params.pop("_composable", False):
            part.count("composable_" + case)
            part.seen("nontrivial", repr(sorted(params.items(), key=repr)))
        if params.pop("_hit", False):
            part.seen("nontrivial", repr(sorted(params.items(), key=repr)))
        for sig, msg in res:
            part.violation(sig, msg, case, params)
        if case == "binary" and len(part.samples) < 1:
            part.sample(params)
    return part


def run(ctx):
    size = 28 if ctx.quick else 60
    tsize = 9 if ctx.quick else 16
    ctx.bounds.update(classes=list(CLASSES), pool_size=size, tensor_triple_pool=tsize)
    ctx.rule = ("per class: every pool value (unit, dagger, every slice point/pair), every ordered "
                "pair (composition/dagger/whisker laws), every composable triple + all triples of a "
                "sub-pool (associativity), every parallel pair x every value (bilinearity, empty "
                "sum). nontrivial = distinct composable pairs/triples and sum cases that fired")
    ctx.assumptions = ["(f @ g)[::-1] == f[::-1] @ g[::-1] is NOT a discopy law and is not checked",
                       "biclosed rule boxes and cartesian boxes have no dagger (TypeError): dagger "
                       "laws skipped for them and counted as dagger_unsupported"]
    items = []
    for cls in CLASSES:
        P = pool_of(cls, size)
        ctx.count("states", len(P))
        ctx.note("pool_sizes", "%s=%d" % (cls, len(P)))
        for r in P:
            items.append(("unary", dict(cls=cls, r=r)))
        for r1 in P:
            for r2 in P:
                items.append(("binary", dict(cls=cls, r1=r1, r2=r2)))
        # composable triples
        vals = [(r, make(r)) for r in P]
        doms = {}
        for r, v in vals:
            doms.setdefault(_safe_key(v.dom), []).append(r)
        for r1, v1 in vals:
            for r2 in doms.get(_safe_key(v1.cod), []):
                v2 = make(r2)
                for r3 in doms.get(_safe_key(v2.cod), []):
                    items.append(("ternary", dict(cls=cls, r1=r1, r2=r2, r3=r3, tensor=False)))
        if cls != "cat":
            T = P[::max(1, len(P) // tsize)][:tsize]
            for r1, r2, r3 in itertools.product(T, repeat=3):
                items.append(("ternary", dict(cls=cls, r1=r1, r2=r2, r3=r3)))
        partners = P[::max(1, len(P) // 6)][:6]
        for r in P:
            for pr in partners:
                items.append(("history", dict(cls=cls, r=r, p=pr)))
        par = {}
        for r, v in vals:
            par.setdefault((_safe_key(v.dom), _safe_key(v.cod)), []).append(r)
        H = P[::max(1, len(P) // 14)][:14]
        for rs in par.values():
            for r1 in rs[:5]:
                for r2 in rs[:5]:
                    for r3 in H:
                        items.append(("sum", dict(cls=cls, r1=r1, r2=r2, r3=r3)))
    # the box zoo: every box constructor x flag variant and the composite subclasses, per class
    from mc import zoo
    nz = 0
    for cls in zoo.CLASSES:
        ents = [("zoo", cls, e) for e in zoo.entries(cls)]
        nz += len(ents)
        vals = [(r, make(r)) for r in ents]
        for r, _ in vals:
            items.append(("unary", dict(cls=cls, r=r)))
            for pr in (ents[0], ents[len(ents) // 2]):
                items.append(("history", dict(cls=cls, r=r, p=pr)))
        stride = 1 if (not ctx.quick or len(ents) <= 40) else 5
        k = 0
        for r1, v1 in vals:
            for r2, v2 in vals:
                composable = _safe_key(v1.cod) == _safe_key(v2.dom)
                k += 1
                if composable or k % stride == 0:
                    items.append(("binary", dict(cls=cls, r1=r1, r2=r2)))
        if stride > 1:
            ctx.cap_hit("zoo: non-composable pairs of %s every %dth (all composable pairs taken)" % (cls, stride))
        par = {}
        for r, v in vals:
            par.setdefault((_safe_key(v.dom), _safe_key(v.cod)), []).append(r)
        for rs in par.values():
            for r1 in rs[:4]:
                for r2 in rs[:4]:
                    for r3 in (rs[0], ents[0], ents[len(ents) // 2]):
                        items.append(("sum", dict(cls=cls, r1=r1, r2=r2, r3=r3)))
    ctx.count("states", nz)
    ctx.bounds["zoo"] = "%d box constructors/flag variants/composite subclasses over %d classes" % (nz, len(zoo.CLASSES))
    for p in pmap(_worker, build.shards(items, 96)):
        ctx.merge(p)
    ctx.counters["traces_validated_against_impl"] = ctx.counters.get("transitions", 0)
