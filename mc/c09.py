"""C09 -- evaluating a diagram computes its compositional meaning.

Space: (A) every rigid source diagram up to the bound (asymmetric boxes, daggered boxes, scalars,
swaps, cups/caps) x every interpretation of the enumerated family: each atom -> a dimension in
{1,2,3} (all 27 assignments) given as int or Dim, through dict or callable, plus multi-wire images;
(B) every tensor.Diagram of tensor.Box / Swap / Spider / Cup / Cap / Bubble up to the bound and
sums of them, through Diagram.eval(); (C) invariance of the value under every legal interchange
and under normal_form().
Oracle: product over layers of  I (x) M(box) (x) I  with numpy kron/matmul (mc.ref.ref_eval).
"""
import itertools

import numpy as np

from mc import ref, build
from mc.core import Part, pmap, digest, safe, time_limit
from mc.build import parse_atom

ATOMS = ("x", "y", "z")


def _sig(kind, params):
    return "C09:%s:%s" % (kind, digest(params))


def source_sig():
    sig = [("box", "f", ("x",), ("y",)), ("box", "g", ("y",), ("x", "z")), ("box", "h", ("x", "y"), ()),
           ("box", "u", (), ("z",)), ("box", "s", (), ()), ("box", "k", ("z",), ("z",)),
           ("box", "gd", ("x", "z"), ("y",), True), ("box", "fd", ("y",), ("x",), True),
           ("box", "k", ("z",), ("z",), True), ("box", "w", ("x",), ("x",)), ("box", "w", ("x",), ("x",), True),
           ("swap", "x", "y"), ("swap", "y", "z"), ("swap", "x", "x"), ("swap", "z", "x"),
           ("cup", "x", "x.r"), ("cup", "x.l", "x"), ("cap", "x.r", "x"), ("cap", "x", "x.l"),
           ("cup", "z", "z.r"), ("cap", "z", "z.l")]
    doms = [(), ("x",), ("y",), ("x", "y"), ("z", "x"), ("x", "x.r")]
    return sig, doms


def interpretations(quick):
    out = []
    modes = [("int", "dict"), ("dim", "dict"), ("int", "callable"), ("dim", "callable")]
    for n, dims in enumerate(itertools.product((1, 2, 3), repeat=3)):
        ms = [modes[n % 4]] if quick else modes
        for ob_mode, supply in ms:
            out.append(dict(dims={a: [d] for a, d in zip(ATOMS, dims)}, ob_mode=ob_mode, supply=supply))
    for dims in ({"x": [2, 3], "y": [2], "z": [2, 2]}, {"x": [2], "y": [3, 2], "z": []},
                 {"x": [3, 2], "y": [2, 3], "z": [2]}):
        out.append(dict(dims=dims, ob_mode="dim", supply="dict"))
        if not quick:
            out.append(dict(dims=dims, ob_mode="dim", supply="callable"))
    return out


def atom_dims(interp, a):
    return [d for d in interp["dims"][parse_atom(a)[0]] if d != 1]


def box_array(name, rows, cols, seed):
    return ref.generic_array(name, rows, cols, seed)


def make_functor(interp, seed):
    from discopy import rigid, tensor
    k = build.kit("rigid")
    sig, _ = source_sig()
    ob = {}
    for a in ATOMS:
        dims = interp["dims"][a]
        if interp["ob_mode"] == "int" and len(dims) == 1:
            ob[k.ty([a])] = dims[0]
        else:
            ob[k.ty([a])] = tensor.Dim(*dims)
    ar = {}
    for spec in sig:
        if spec[0] != "box":
            continue
        dom, cod = (spec[3], spec[2]) if len(spec) > 4 and spec[4] else (spec[2], spec[3])
        src = k.Box(spec[1], k.ty(dom), k.ty(cod))
        rows = ref.prod([d for a in dom for d in atom_dims(interp, a)])
        cols = ref.prod([d for a in cod for d in atom_dims(interp, a)])
        ar[src] = box_array(spec[1], rows, cols, seed).flatten().tolist()
    if interp["supply"] == "callable":
        ob_l, ar_l = list(ob.items()), list(ar.items())
        F = tensor.Functor(lambda t: [v for kk, v in ob_l if kk == t][0],
                           lambda b: [v for kk, v in ar_l if kk == b][0])
    else:
        F = tensor.Functor(ob, ar)
    return F


def ref_matrix(d, interp, seed):
    """Reference value of a rigid source diagram under the interpretation."""
    from discopy import rigid, monoidal

    def total(a):
        name = a if not isinstance(a, tuple) else a[0]
        return ref.prod([x for x in interp["dims"][name] if x != 1])

    def mat_of(b, dd, dc):
        from mc.c08 import cup_ref
        if isinstance(b, rigid.Cup):   # nested cups of the image wires (wire i with wire n-1-i)
            return cup_ref(tuple(x for x in interp["dims"][b.dom.objects[0].name] if x != 1))
        if isinstance(b, rigid.Cap):
            return cup_ref(tuple(x for x in interp["dims"][b.cod.objects[0].name] if x != 1)).T
        if isinstance(b, monoidal.Swap):
            return ref.swap_matrix(dd[0], dd[1])
        if b.is_dagger:
            return box_array(str(b.name), ref.prod(dc), ref.prod(dd), seed).conj().T
        return box_array(str(b.name), ref.prod(dd), ref.prod(dc), seed)
    return ref.ref_eval(d, total, mat_of)


def dims_of_type(t, interp):
    return tuple(x for o in t.objects for x in interp["dims"][o.name] if x != 1)


def check_functor(params):
    from discopy.cat import AxiomError
    interp, seed = params["interp"], params.get("seed", 0)
    recipe = build_norm(params["recipe"])
    d = build.build(recipe)
    out = []

    def bad(kind, msg):
        out.append((_sig(kind, params), "tensor.Functor(%s as %s via %s) on %s: %s"
                    % (interp["dims"], interp["ob_mode"], interp["supply"], d, msg)))
    F = make_functor(interp, seed)
    multi = any(len([x for x in v if x != 1]) > 1 for v in interp["dims"].values())
    try:
        got = F(d)
    except AxiomError as e:
        has_cupcap_on_multi = any(
            s[0] in ("cup", "cap") and len(atom_dims(interp, s[1])) > 1 for s, _ in recipe[2])
        if has_cupcap_on_multi:
            params["_out_of_scope"] = True   # non-palindromic multi-wire image under a cup/cap
            return out
        bad("raises", "F(d) raised %r" % (e,))
        return out
    except Exception as e:  # noqa
        bad("raises", "F(d) raised %r" % (e,))
        return out
    want = ref_matrix(d, interp, seed)
    wd, wc = dims_of_type(d.dom, interp), dims_of_type(d.cod, interp)
    gd, gc = tuple(o.name for o in got.dom.objects), tuple(o.name for o in got.cod.objects)
    if gd != wd or gc != wc:
        bad("domcod", "F(d) : %s -> %s, expected dims %s -> %s" % (got.dom, got.cod, wd, wc))
        return out
    arr = np.asarray(got.array)
    if arr.shape != (wd + wc or (1,)):
        bad("shape", "array shape %s, expected %s" % (arr.shape, wd + wc))
        return out
    if not np.array_equal(arr.reshape(want.shape), want):
        bad("value", "F(d).array differs from the layer-by-layer composite")
        return out
    # invariance under every legal interchange and under normalisation
    n = len(d)
    for i in range(n - 1):
        for left in (False, True):
            try:
                e = d.interchange(i, i + 1, left=left)
            except Exception:
                continue
            v = np.asarray(F(e).array)
            params["_moves"] = params.get("_moves", 0) + 1
            if v.shape != arr.shape or not np.array_equal(v, arr):
                bad("interchange-variance", "F(d.interchange(%d,%d,left=%s)) differs from F(d)" % (i, i + 1, left))
                return out
    if params.get("normal_form", True):
        try:
            with time_limit(20, "normal_form"):
                nf = d.normal_form()
        except Exception:
            nf = None
        if nf is not None:
            v = np.asarray(F(nf).array)
            if v.shape != arr.shape or not np.array_equal(v, arr):
                bad("normal-form-variance", "F(d.normal_form()) = F(%s) differs from F(d)" % (nf,))
    return out


# ------------------------------------------------------------------ tensor diagrams: eval()

def poly(x):
    return x * x + 2 * x + 1


def relu(x):
    return x if x > 0 else 0          # returns the entry itself or the *integer* 0


def step(x):
    return 1 if x > 1 else x / 2      # integer for large entries, float otherwise


def _objs():
    import sympy
    obj = np.array([1, 2j, 3, 4 - 1j, 5j, 6], dtype=object)
    sym = np.array([sympy.Integer(1), 2 * sympy.I, sympy.Integer(3), 4 - sympy.I, 5 * sympy.I, sympy.Integer(6)], dtype=object)
    return dict(OBJ=obj, SYM=sym)


def tensor_sig():
    return [("tbox", "a", (2,), (3,)), ("tbox", "b", (3,), (2, 2)), ("tbox", "c", (), (2,)),
            ("tbox", "d", (2, 3), ()), ("tbox", "s", (), ()), ("tbox", "ad", (3,), (2,), True),
            ("tbox", "bd", (2, 2), (3,), True), ("tbox", "en", (2,), (2,)), ("tbox", "en", (2,), (2,), True),
            ("e", "Box('a', Dim(2), Dim(3), [6, 5j, 4, 3, 2, 1])"),
            ("e", "Swap(Dim(2), Dim(3))"), ("e", "Swap(Dim(3), Dim(2))"), ("e", "Swap(Dim(2), Dim(2))"),
            ("e", "Spider(1, 2, 2)"), ("e", "Spider(2, 1, 3)"), ("e", "Spider(0, 1, 2)"), ("e", "Spider(2, 0, 3)"),
            ("e", "Cup(Dim(2), Dim(2))"), ("e", "Cap(Dim(3), Dim(3))"),
            ("e", "Box('p', Dim(2), Dim(3), [1, 2, 3, 4, 5, 6]).bubble(func=poly)"),
            ("e", "(Box('p', Dim(2), Dim(2), [1, 2j, 3, 4]) >> Box('q', Dim(2), Dim(2), [0, 1, 1, 5])).bubble(func=poly)"),
            # functions whose return type depends on the entry, on data whose first entry takes the odd branch
            ("e", "Box('r', Dim(2), Dim(3), [-1.5, 0.5, 2.5, -0.25, 1.75, 3.5]).bubble(func=relu)"),
            ("e", "Box('t', Dim(2), Dim(2), [3, 0.5, 0.25, 1.5]).bubble(func=step)"),
            ("e", "Box('n', Dim(2), Dim(2), [0, 2, 0.5, 0]).bubble()"),
            # bubbles whose inside is a composite with idle wires or a dagger (the evaluated array
            # is then a transposed view: index order and memory order differ)
            ("e", "(Box('w', Dim(2), Dim(3), [1, 2, 3, 4, 5, 6]) @ Id(Dim(2))).bubble(func=poly)"),
            ("e", "(Id(Dim(3)) @ Box('w', Dim(2), Dim(2), [1, 2, 3, 4]) >> Box('v', Dim(3), Dim(2), [1, 2, 3, 4, 5, 6]) @ Id(Dim(2))).bubble(func=poly)"),
            ("e", "Box('w', Dim(3), Dim(2), [1, 2j, 3, 4, 5, 6]).dagger().bubble(func=poly)"),
            # entries stored as Python objects (dtype=object): complex numbers and exact sympy numbers
            ("e", "Box('o', Dim(2), Dim(3), OBJ)"), ("e", "Box('o', Dim(2), Dim(3), OBJ).dagger()"),
            ("e", "Box('y', Dim(3), Dim(2), SYM)"), ("e", "Box('y', Dim(3), Dim(2), SYM).dagger()")], \
        [(), (2,), (3,), (2, 3), (2, 2)]


def ref_tensor_matrix(d):
    from discopy import rigid, monoidal, tensor

    def mat_of(b, dd, dc):
        if isinstance(b, tensor.Bubble):
            inner = ref_tensor_matrix(b.inside)
            return np.array([b.func(v.real if v.imag == 0 else v) for v in np.asarray(inner).flatten().tolist()],
                            dtype=complex).reshape(ref.prod(dd), ref.prod(dc))
        if isinstance(b, tensor.Spider):
            m = np.zeros((ref.prod(dd), ref.prod(dc)))
            dim = (dd + dc)[0] if dd + dc else 1
            for i in range(dim):
                r = sum(i * dim ** k for k in range(len(dd)))
                c = sum(i * dim ** k for k in range(len(dc)))
                m[r, c] = 1
            return m
        if isinstance(b, rigid.Cup):
            return ref.cup_matrix(dd[0])
        if isinstance(b, rigid.Cap):
            return ref.cup_matrix(dc[0]).T
        if isinstance(b, monoidal.Swap):
            return ref.swap_matrix(dd[0], dd[1])
        data = np.array([complex(v) for v in np.asarray(b.data, dtype=object).flatten()])   # the data the box was given
        if b.is_dagger:   # a daggered box keeps the data of the box it is the dagger of
            return data.reshape(ref.prod(dc), ref.prod(dd)).conj().T
        return data.reshape(ref.prod(dd), ref.prod(dc))
    return ref.ref_eval(d, lambda a: a, mat_of)


def num(a):
    """Array of a Tensor as complex numbers (entries may be stored as Python or sympy objects)."""
    a = np.asarray(a)
    if a.dtype == object:
        # sympy evaluates products of exact numbers and floats with its own rounding: 1e-19 residues
        return np.round(np.array([complex(v) for v in a.flatten()], dtype=complex).reshape(a.shape), 9)
    return a


def tensor_build(recipe):
    k = build.kit("tensor")
    k.ns.update(poly=poly, relu=relu, step=step, **_objs())
    return build.build(recipe)


def check_eval(params):
    recipe = build_norm(params["recipe"])
    d = tensor_build(recipe)
    out = []

    def bad(kind, msg):
        out.append((_sig(kind, params), "eval of %s: %s" % (d, msg)))
    try:
        got = d.eval()
    except Exception as e:  # noqa
        bad("raises", "%r" % (e,))
        return out
    want = ref_tensor_matrix(d)
    wd, wc = tuple(o.name for o in d.dom.objects), tuple(o.name for o in d.cod.objects)
    if tuple(o.name for o in got.dom.objects) != wd or tuple(o.name for o in got.cod.objects) != wc:
        bad("domcod", "eval : %s -> %s" % (got.dom, got.cod))
        return out
    arr = num(got.array)
    if arr.size != want.size or not np.array_equal(arr.reshape(want.shape), want):
        bad("value", "eval().array differs from the layer-by-layer composite")
        return out
    # same tensor as its image under the identity-on-arrays functor
    from discopy import tensor
    F = tensor.Functor(ob=lambda x: x, ar=lambda f: f.array)
    v = num(F(d).array)
    if v.shape != arr.shape or not np.array_equal(v, arr):
        bad("identity-functor", "eval() differs from Functor(ob=id, ar=array)(d)")
    if "recipe2" in params:
        e = tensor_build(build_norm(params["recipe2"]))
        S = d + e
        sv = S.eval()
        want2 = want + ref_tensor_matrix(e)
        if not np.array_equal(num(sv.array).reshape(want2.shape), want2):
            bad("sum", "(d + e).eval() is not the sum of the evaluations")
        # the same term more than once counts every time
        for label, T, w in (("d + d", d + d, 2 * want), ("e + d + e", e + d + e, 2 * ref_tensor_matrix(e) + want),
                            ("(d + d) + (d + e)", (d + d) + (d + e), 3 * want + ref_tensor_matrix(e))):
            tv = T.eval()
            if not np.array_equal(num(tv.array).reshape(w.shape), w):
                bad("sum-repeated", "(%s).eval() is not the sum of the evaluations of its terms" % label)
                break
    return out


def build_norm(r):
    def t(x):
        return tuple(t(y) for y in x) if isinstance(x, (list, tuple)) else x
    return t(r)


CASES = {k: safe("C09", f) for k, f in {"functor": check_functor, "eval": check_eval}.items()}


def _worker(shard):
    part = Part()
    for case, params in shard:
        res = CASES[case](params)
        part.count("transitions")
        if params.pop("_out_of_scope", False):
            part.count("out_of_scope_refusals")
        part.count("interchange_invariance_checks", params.pop("_moves", 0))
        part.seen("nontrivial", repr(sorted((k, repr(v)) for k, v in params.items())))
        for sig, msg in res:
            part.violation(sig, msg, case, params)
        if case == "functor" and len(part.samples) < 1 and len(params["recipe"][2]) == 2:
            part.sample(params)
    return part


def run(ctx):
    depth = 2 if ctx.quick else 3
    sig, doms = source_sig()
    src = list(build.universe("rigid", sig, doms, depth, 3))
    if ctx.quick:
        pass  # complete at this depth in the quick tier
    interps = interpretations(ctx.quick)
    tsig, tdoms = tensor_sig()
    k = build.kit("tensor")
    k.ns.update(poly=poly, relu=relu, step=step, **_objs())
    tsrc = list(build.expr_universe("tensor", tsig, tdoms, depth, 3))
    ctx.count("states", len(src) + len(tsrc))
    ctx.note("sizes", "%d rigid source diagrams x %d interpretations; %d tensor diagrams"
             % (len(src), len(interps), len(tsrc)))
    ctx.bounds.update(depth=depth, width=3, dims=[1, 2, 3], multiwire_images=3)
    ctx.rule = ("(A) every source diagram x every interpretation (27 dimension assignments, int/Dim, "
                "dict/callable, 3 multi-wire images): F(d).array == product over layers of I(x)M(x)I, "
                "dom/cod dims, invariance under every legal interchange and normal_form; (B) every "
                "tensor.Diagram (boxes, daggers, swaps, spiders, cups, caps, bubbles): eval() == "
                "reference == identity-on-arrays functor; sums. nontrivial = distinct cases")
    ctx.assumptions = ["numpy kron/matmul trusted; exact comparison (Gaussian integers)",
                       "a cup/cap on an atom with a non-palindromic multi-wire image is refused with "
                       "AxiomError (object map ignores winding): counted as out_of_scope_refusals, not "
                       "claimed either way"]
    items = []
    for it in interps:
        for r in src:
            items.append(("functor", dict(interp=it, recipe=r, seed=ctx.seed,
                                          normal_form=len(r[2]) >= 2)))
    par = {}
    for r in tsrc:
        items.append(("eval", dict(recipe=r)))
        d = tensor_build(r)
        par.setdefault((ref.ty_key(d.dom), ref.ty_key(d.cod)), []).append(r)
    for rs in par.values():
        for r1, r2 in zip(rs[::5], rs[1::5]):
            items.append(("eval", dict(recipe=r1, recipe2=r2)))
        if len(rs) == 1:
            items.append(("eval", dict(recipe=rs[0], recipe2=rs[0])))
    for p in pmap(_worker, build.shards(items, 128)):
        ctx.merge(p)
    ctx.counters["traces_validated_against_impl"] = ctx.counters.get("transitions", 0)
