"""C13 -- translation to and from tket preserves the meaning of circuits.

Export: every circuit up to the bound over the exportable alphabet (preparations, post-selections,
measurements of all four variants, discards, swaps of every kind, scalars, classical gates at
every depth -- the universe is prefix closed, so the register bookkeeping of to_tk is exercised at
every intermediate layer).  The exported tket circuit is run on an exact simulator, post-processed
as documented (post-selection, scalar, classical post-processing) and compared with the
circuit's own mixed evaluation (after init_and_discard) and with an independent reference; the
same through get_counts(backend) / eval(backend) with an exact backend; and after re-import.
Import: every tket circuit over the supported operations up to the bound.
"""
import itertools

import numpy as np

from mc import ref, build, qref, tketsim
from mc.core import Part, pmap, digest, safe


def _sig(kind, params):
    return "C13:%s:%s" % (kind, digest(params))


def export_sig(quick):
    sig = [("e", x) for x in (
        "Ket(0)", "Ket(1)", "Ket(1, 0)", "Bra(0)", "Bra(1)", "Bra(0, 1)", "Bits(0)", "H", "S", "T", "X", "Y", "Z",
        "CX", "CZ", "SWAP", "Rx(0.3)", "Rz(-0.7)", "CRz(0.25)",
        "Measure()", "Measure(destructive=False)", "Measure(override_bits=True)",
        "Measure(destructive=False, override_bits=True)", "Discard()", "Discard(bit)",
        "scalar(0.5j)", "scalar(0.25, is_mixed=True)", "sqrt(2)",
        "ClassicalGate('noisy', 1, 1, [0.9, 0.1, 0.2, 0.8])", "Copy()", "Match()", "Bits(1).dagger()",
        "Swap(bit, bit)", "Swap(bit, qubit)", "Swap(qubit, bit)", "S.dagger()", "Controlled(Z)", "Rx(0.3004)")]
    if not quick:
        sig += [("e", x) for x in ("Rx(1.25)", "Rz(0.5)", "CRz(-0.7)", "T.dagger()", "Controlled(S)", "Measure(2)", "Bits(0, 0)")]
    return sig


def vector(counts, n):
    v = np.zeros((2,) * n or (1,), dtype=complex)
    for bits, p in counts.items():
        if len(bits) != n:
            raise ValueError("count key %r has not %d bits" % (bits, n))
        v[tuple(bits) or (0,)] += p
    return v.reshape(1, -1)


def classical_matrix(post):
    """[in, out] stochastic-like matrix of a classical post-processing circuit (reference)."""
    n_in, n_out = len(post.dom), len(post.cod)
    E = qref.cq_ref(post).reshape((4,) * (n_in + n_out))
    P = np.zeros((2,) * (n_in + n_out), dtype=complex)
    for idx in itertools.product((0, 1), repeat=n_in + n_out):
        P[idx] = E[tuple(3 * i for i in idx)]
    return P.reshape(2 ** n_in, 2 ** n_out)


def reference_distribution(c):
    closed = c.init_and_discard()
    E = qref.cq_ref(closed)
    n = len(closed.cod)
    dist = qref.distribution(E, [o.name for o in closed.cod.objects])
    return closed, np.array([dist[b] for b in itertools.product((0, 1), repeat=n)]).reshape(1, -1)


def known_shape(c):
    """Structural features of a source circuit that put it in one of the recorded to_tk defect
    families (see known_findings.json); None otherwise.  Computed from the circuit only."""
    from discopy.quantum import gates, circuit
    closed = c.init_and_discard()
    classical_seen, n_bits_made = False, 0
    for left, box, right in closed.layers:
        nb_left, nb_right = left.count(circuit.bit), right.count(circuit.bit)
        if isinstance(box, circuit.Measure) and box.override_bits and classical_seen:
            return "classical-gate-before-overriding-measure"
        if isinstance(box, gates.Bits) and not box.is_dagger:
            if classical_seen:
                return "bits-prepared-after-classical-gate"
            if nb_right >= 1:
                return "bits-prepared-left-of-an-existing-bit"
        if isinstance(box, gates.ClassicalGate) and not isinstance(box, gates.Bits):
            classical_seen = True
        if isinstance(box, gates.Bits) and box.is_dagger:
            classical_seen = True
    return None


def check_export(params):
    from discopy.quantum.circuit import Circuit
    recipe = norm(params["recipe"])
    c = build.build(recipe)
    out = []

    def bad(kind, msg):
        shape = known_shape(c) if kind in ("export-meaning", "to_tk-raises", "get_counts-backend",
                                           "eval-backend", "backend-raises", "output-bits", "bit-count") else None
        sig = "C13:to_tk:%s" % shape if shape else _sig(kind, params)
        out.append((sig, "%s: %s" % (c, msg)))
    try:
        t = c.to_tk()
    except NotImplementedError:
        params["_refused"] = True
        return out
    except Exception as e:  # noqa
        bad("to_tk-raises", "to_tk() raised %s: %s" % (type(e).__name__, str(e)[:150]))
        return out
    snap = ref.snapshot(c)

    def cmds(tk_circ):
        return ([(x.op.type.name, tuple(x.op.params), [q.index for q in x.qubits], [b.index for b in x.bits]) for x in tk_circ.get_commands()],
                dict(tk_circ.post_selection), tk_circ.scalar, ref.snapshot(tk_circ.post_processing))
    t_again = c.to_tk()
    if cmds(t_again) != cmds(t) or ref.snapshot(c) != snap:
        bad("second-export", "exporting the same circuit again gives %r with %s (first %r with %s), or the circuit was changed"
            % (t_again, t_again.post_selection, t, t.post_selection))
    closed, want = reference_distribution(c)
    n_out = len(closed.cod)
    # discopy's own mixed evaluation (what the statement compares with)
    own = np.asarray(closed.eval(mixed=True).array, dtype=complex).reshape(1, -1)
    if not qref.close(own, want):
        raise AssertionError("reference and discopy's mixed evaluation disagree (C12 territory)")
    # 1. exact simulation of the exported circuit + documented post-processing
    sim = tketsim.simulate(t)
    sel = {}
    for bits, p in sim.items():
        if all(bits[i] == v for i, v in t.post_selection.items()):
            key = tuple(b for i, b in enumerate(bits) if i not in t.post_selection)
            sel[key] = sel.get(key, 0) + p
    n_mid = len(t.post_processing.dom)
    try:
        v = vector(sel, n_mid) * t.scalar
    except ValueError as e:
        bad("bit-count", "exported circuit %r: %s (post_processing expects %d bits)" % (t, e, n_mid))
        return out
    got = v @ classical_matrix(t.post_processing)
    if got.shape != want.shape:
        bad("output-bits", "export %r yields %d output bits, the circuit has %d"
            % (t, len(t.post_processing.cod), n_out))
        return out
    if not qref.close(got, want):
        bad("export-meaning", "exported %r simulates to %s but the circuit evaluates to %s"
            % (t, np.round(got.real, 4).tolist(), np.round(want.real, 4).tolist()))
        return out
    # 2. through the library's own backend paths with an exact backend
    try:
        counts = c.get_counts(tketsim.ExactBackend())
        try:
            direct = vector(counts, n_out)
        except ValueError:
            direct = None
        if direct is None or not qref.close(direct, want):
            # counting through a backend must agree with local evaluation.  One recorded defect:
            # Circuit.get_counts(backend) never applies the classical post-processing that to_tk
            # recorded (eval(backend) does) -- recognised exactly: there is a post-processing, and
            # applying it to the returned counts gives the local evaluation
            try:
                gc = vector(counts, n_mid) @ classical_matrix(t.post_processing)
            except ValueError:
                gc = None
            if gc is not None and len(t.post_processing) and qref.close(gc, want) and known_shape(c) is None:
                out.append(("C13:get_counts:post-processing-not-applied",
                            "%s: get_counts(exact backend) = %r is the distribution before the recorded classical "
                            "post-processing %s; the local evaluation is %s"
                            % (c, counts, t.post_processing, np.round(want.real, 4).tolist())))
            else:
                bad("get_counts-backend", "get_counts(exact backend) = %r does not match the evaluation %s"
                    % (counts, np.round(want.real, 4).tolist()))
        ev = c.eval(tketsim.ExactBackend())
        eva = np.asarray(ev.array, dtype=complex).reshape(1, -1)
        if eva.shape != want.shape or not qref.close(eva, want):
            bad("eval-backend", "eval(exact backend) = %s, local evaluation %s"
                % (np.round(eva.real, 4).tolist(), np.round(want.real, 4).tolist()))
    except Exception as e:  # noqa
        bad("backend-raises", "%s: %s" % (type(e).__name__, str(e)[:150]))
    # 2b. the documented switches of get_counts, one at a time and all off, on a backend that
    # returns frequency * n_shots: expected value computed from the exact simulation above
    if params.get("flags", True):
        for flags in (dict(normalize=False), dict(post_select=False), dict(scale=False),
                      dict(normalize=False, post_select=False, scale=False, n_shots=64), dict(n_shots=7)):
            shots = flags.get("n_shots", 2 ** 10)
            exp = {}
            for bits, p in sim.items():
                if p <= 1e-15:
                    continue
                if flags.get("post_select", True):
                    if not all(bits[i] == v for i, v in t.post_selection.items()):
                        continue
                    bits = tuple(b for i, b in enumerate(bits) if i not in t.post_selection)
                exp[bits] = exp.get(bits, 0) + p
            tot = sum(sim.values())
            for bits in exp:
                exp[bits] = exp[bits] / tot if flags.get("normalize", True) else exp[bits] * shots
                if flags.get("scale", True):
                    exp[bits] = exp[bits] * t.scalar
            try:
                be = tketsim.ExactBackend(by_shots=True)
                got = c.get_counts(be, **flags)
            except Exception as e:  # noqa
                bad("backend-flags-raise", "get_counts(backend, %s) raised %s: %s" % (flags, type(e).__name__, str(e)[:120]))
                break
            keys = set(exp) | set(got)
            if be.seen_shots != [shots] or any(abs(got.get(k, 0) - exp.get(k, 0)) > 1e-7 * max(1, shots) for k in keys):
                bad("backend-flags", "get_counts(backend, %s) = %r (backend asked for %s shots), expected %r"
                    % (flags, got, be.seen_shots, {k: np.round(v, 6) for k, v in exp.items()}))
                break
    # 3. re-import
    try:
        back = Circuit.from_tk(t)
        be = np.asarray(back.eval(mixed=True).array, dtype=complex).reshape(1, -1)
        if ref.scan(back):
            bad("reimport-illtyped", "from_tk(to_tk(c)) ill-typed: %s" % ref.scan(back)[:2])
        elif be.shape != want.shape or not qref.close(be, want):
            bad("reimport-meaning", "from_tk(to_tk(c)) = %s evaluates to %s, the circuit to %s"
                % (back, np.round(be.real, 4).tolist(), np.round(want.real, 4).tolist()))
    except NotImplementedError:
        params["_reimport_refused"] = True
    except Exception as e:  # noqa
        bad("reimport-raises", "from_tk(to_tk(c)) / eval raised %s: %s" % (type(e).__name__, str(e)[:150]))
    return out


OPS1 = ["H", "S", "T", "X", "Y", "Z"]
OPS1P = [("Rx", 0.6), ("Rz", -1.4)]
OPS2 = ["CX", "CZ", "SWAP"]
OPS2P = [("CRz", 0.5)]


def tk_commands(nq, nb):
    cmds = []
    for q in range(nq):
        for o in OPS1:
            cmds.append((o, [q], []))
        for o, p in OPS1P:
            cmds.append((o, [q], [p]))
        for b in range(nb):
            cmds.append(("Measure", [q, b], []))
    for a in range(nq):
        for b in range(nq):
            if a != b:
                for o in OPS2:
                    cmds.append((o, [a, b], []))
                for o, p in OPS2P:
                    cmds.append((o, [a, b], [p]))
    return cmds


def build_tk(nq, nb, cmds):
    import pytket as tk
    t = tk.Circuit(nq, nb)
    for name, args, ps in cmds:
        getattr(t, name)(*(list(ps) + list(args)))
    return t


def check_import(params):
    from discopy.quantum.circuit import Circuit
    nq, nb, cmds = params["nq"], params["nb"], params["cmds"]
    t = build_tk(nq, nb, cmds)
    out = []

    def bad(kind, msg):
        desc = "".join(".%s(%s)" % (n, ", ".join(map(str, list(p) + list(a)))) for n, a, p in cmds)
        out.append((_sig(kind, params), "tk.Circuit(%d, %d)%s: %s" % (nq, nb, desc, msg)))
    before = [(cmd.op.type.name, tuple(cmd.op.params), [q.index for q in cmd.qubits], [b.index for b in cmd.bits])
              for cmd in t.get_commands()]
    try:
        c = Circuit.from_tk(t)
    except NotImplementedError:
        params["_refused"] = True
        return out
    except Exception as e:  # noqa
        bad("from_tk-raises", "%s: %s" % (type(e).__name__, str(e)[:150]))
        return out
    after = [(cmd.op.type.name, tuple(cmd.op.params), [q.index for q in cmd.qubits], [b.index for b in cmd.bits])
             for cmd in t.get_commands()]
    if after != before or (t.n_qubits, len(t.bits)) != (nq, nb):
        bad("argument-mutated", "from_tk changed the tket circuit it was given")
        return out
    errs = ref.scan(c)
    if errs:
        bad("illtyped", "from_tk result ill-typed: %s" % errs[:2])
        return out
    if len(c.dom) != 0 or [o.name for o in c.cod.objects] != ["bit"] * nb:
        bad("type", "from_tk result : %s -> %s, expected Ty() -> bit ** %d" % (c.dom, c.cod, nb))
        return out
    sim = tketsim.simulate(t)
    want = vector(sim, nb)
    try:
        got = np.asarray(c.eval(mixed=True).array, dtype=complex).reshape(1, -1)
    except Exception as e:  # noqa
        bad("eval-raises", "from_tk(t) = %s cannot be evaluated: %s: %s" % (c, type(e).__name__, str(e)[:120]))
        return out
    if got.shape != want.shape or not qref.close(got, want):
        bad("import-meaning", "from_tk(t) = %s evaluates to %s, the tket circuit gives %s"
            % (c, np.round(got.real, 4).tolist(), np.round(want.real, 4).tolist()))
        return out
    # the quantum state before the closing discards (gates that no measurement observes)
    from discopy.quantum.circuit import Discard
    if nq and len(c) >= nq and all(isinstance(b, Discard) for b in c.boxes[-nq:]):
        core = c[:len(c) - nq]
        if [o.name for o in core.cod.objects] == ["qubit"] * nq + ["bit"] * nb:
            arr = np.asarray(core.eval(mixed=True).array, dtype=complex).reshape((2,) * nb + (2 ** nq, 2 ** nq))
            st = tketsim.simulate_state(t)
            for bits in itertools.product((0, 1), repeat=nb):
                rho = st.get(bits, np.zeros((2 ** nq, 2 ** nq)))
                if not qref.close(arr[bits], rho.T):
                    bad("import-state", "from_tk(t) = %s: the state of the qubits (given bits %s) before the "
                        "closing discards differs from the tket circuit's" % (c, bits))
                    break
            params["_state"] = True
    return out


def check_batch(params):
    """Several circuits through one backend call: each must be post-processed with its own
    post-selection and scalar."""
    cs = [build.build(norm(r)) for r in params["recipes"]]
    out = []
    try:
        ts = [c.to_tk() for c in cs]
    except NotImplementedError:
        params["_refused"] = True
        return out
    try:
        counts = cs[0].get_counts(*cs[1:], backend=tketsim.ExactBackend())
        evs = cs[0].eval(*cs[1:], backend=tketsim.ExactBackend())
    except NotImplementedError:
        params["_refused"] = True
        return out
    for i, (c, t) in enumerate(zip(cs, ts)):
        closed, want = reference_distribution(c)
        n_mid = len(t.post_processing.dom)
        got = vector(counts[i], n_mid) @ classical_matrix(t.post_processing)
        try:
            direct = vector(counts[i], len(closed.cod))
        except ValueError:
            direct = None
        if got.shape == want.shape and qref.close(got, want) and len(t.post_processing) \
                and (direct is None or not qref.close(direct, want)):
            out.append(("C13:get_counts:post-processing-not-applied",
                        "batch get_counts: circuit #%d = %s is returned before its classical post-processing" % (i, c)))
            break
        if got.shape != want.shape or not qref.close(got, want):
            out.append((_sig("batch-counts", params), "get_counts(%s) in one batch: circuit #%d = %s gets %s, "
                        "its own evaluation is %s" % (", ".join(map(str, cs)), i, c,
                                                      np.round(got.real, 4).tolist(), np.round(want.real, 4).tolist())))
            break
        ev = np.asarray(evs[i].array, dtype=complex).reshape(1, -1)
        if ev.shape != want.shape or not qref.close(ev, want):
            out.append((_sig("batch-eval", params), "eval(%s) in one batch: circuit #%d = %s gets %s, "
                        "its own evaluation is %s" % (", ".join(map(str, cs)), i, c,
                                                      np.round(ev.real, 4).tolist(), np.round(want.real, 4).tolist())))
            break
    return out


def norm(r):
    def t(x):
        return tuple(t(y) for y in x) if isinstance(x, (list, tuple)) else x
    return t(r)


CASES = {k: safe("C13", f) for k, f in {"export": check_export, "import": check_import,
                                        "batch": check_batch}.items()}


def _worker(shard):
    part = Part()
    for case, params in shard:
        res = CASES[case](params)
        part.count("transitions")
        part.count("states")
        if params.pop("_refused", False):
            part.count("refusals_" + case)
        else:
            part.seen("nontrivial", repr(sorted((k, repr(v)) for k, v in params.items())))
        if params.pop("_state", False):
            part.count("import_states_compared")
        if params.pop("_reimport_refused", False):
            part.count("reimport_refusals")
        for s_, msg in res:
            part.violation(s_, msg, case, params)
        if case == "batch":
            part.count("batches")
        if case == "export" and len(part.samples) < 1 and len(params["recipe"][2]) == 2:
            part.sample(params)
    return part


def directed_exports():
    """Depth-3/4 family: prepare / post-select / measure in the middle, then a gate across it."""
    out = []
    mids = ["Ket(0)", "Ket(1)", "Bra(0)", "Bra(1)", "Measure()", "Measure(destructive=False)", "Discard()",
            "Bits(0)", "SWAP", "Swap(bit, qubit)"]
    gates = ["CX", "CRz(0.25)", "SWAP"]
    k = build.kit("circuit")
    for m1 in mids:
        for m2 in mids:
            for g in gates:
                for dom in (("qubit", "qubit"), ("qubit", "qubit", "qubit"), ("bit", "qubit", "qubit")):
                    for o1 in range(3):
                        for o2 in range(3):
                            for o3 in range(3):
                                layers = []
                                cur = list(dom)
                                ok = True
                                for spec, off in ((("e", "H"), 0), (("e", m1), o1), (("e", m2), o2), (("e", g), o3),
                                                  (("e", "Measure()"), 0)):
                                    if spec[1] == "H" and cur[:1] != ["qubit"]:
                                        spec, off = ("e", "H"), (cur.index("qubit") if "qubit" in cur else None)
                                        if off is None:
                                            ok = False
                                            break
                                    bd, bc = k.io(spec)
                                    if spec[1] == "Measure()" and len(layers) == 4:
                                        if "qubit" not in cur:
                                            continue
                                        off = cur.index("qubit")
                                    if tuple(cur[off:off + len(bd)]) != tuple(bd) or off + len(bd) > len(cur) \
                                            or len(cur) - len(bd) + len(bc) > 4:
                                        ok = False
                                        break
                                    layers.append((spec, off))
                                    cur = cur[:off] + list(bc) + cur[off + len(bd):]
                                if ok:
                                    out.append(("circuit", tuple(dom), tuple(layers)))
    return sorted(set(out))


def tomography_family(quick):
    """Gates observed through interference: |0..0> -> H.. -> gates -> change of basis (Z, X or Y on
    every qubit) -> Measure.  The 3^n closures determine the state, so a wrong phase convention in
    the export of a gate (invisible in the computational basis) shows in some closure."""
    g1 = ["H", "S", "T", "X", "Y", "Z", "S.dagger()", "T.dagger()", "Rx(0.3)", "Rz(-0.7)"]
    g2 = ["CX", "CZ", "SWAP", "CRz(0.25)", "Controlled(Z)", "Controlled(S)", "Controlled(Rz(0.3))",
          "CRz(-0.25)", "CRz(1.25)", "CRz(0.25).dagger()", "CRx(-0.3)", "CRx(1.3)", "CU1(-0.25)", "CU1(1.25)",
          "CRz(0.5)", "CRx(0.5)"]
    basis = {"Z": [], "X": ["H"], "Y": ["Rz(-0.25)", "H"]}
    out = []
    q = ("qubit",)
    for a in g1:
        for b in (g1 if not quick else g1[::2] + ["S.dagger()"]):
            for bs in basis.values():
                lay = [(("e", x), 0) for x in ["H", a, b] + bs + ["Measure()"]]
                out.append(("circuit", q, tuple(lay)))
    for g in g2:
        for pre in (("H", "H"), ("H", "X"), ("X", "H")):
            for b0, b1 in itertools.product(basis.values(), repeat=2):
                lay = [(("e", pre[0]), 0), (("e", pre[1]), 1), (("e", "T"), 1), (("e", g), 0)]
                lay += [(("e", x), 0) for x in b0] + [(("e", x), 1) for x in b1]
                lay += [(("e", "Measure()"), 0), (("e", "Measure()"), 1)]
                out.append(("circuit", q + q, tuple(lay)))
    return out


def renaming_family():
    """Registers renamed after side information was recorded: a live measured bit, then k qubits
    prepared, rotated and post-selected on every bitstring (k = 1..3, in one Bra or in separate
    ones), then one or two more bits (or a qubit) prepared to the right of the live bit, which
    shifts the indices of the post-selected bits."""
    E = lambda x: ("e", x)  # noqa
    out = []
    for k in (1, 2, 3):
        for bras in itertools.product((0, 1), repeat=k):
            for split in ((False, True) if k > 1 else (False,)):
                for tail in (("Bits(0)",), ("Bits(1)",), ("Bits(1)", "Bits(0)"), ("Ket(1)", "Bits(0)")):
                    lay = [(E("Ket(0)"), 0), (E("Rx(0.3)"), 0), (E("Measure()"), 0),
                           (E("Ket(%s)" % ", ".join("0" * k)), 1)]
                    lay += [(E("Rx(%r)" % (0.2 + 0.1 * i)), 1 + i) for i in range(k)]
                    if split:
                        lay += [(E("Bra(%d)" % b), 1) for b in bras]
                    else:
                        lay += [(E("Bra(%s)" % ", ".join(map(str, bras))), 1)]
                    for t in tail:
                        lay.append((E(t), 1))
                    out.append(("circuit", (), tuple(lay)))
    return out


def run(ctx):
    depth = 2 if ctx.quick else 3
    sig = export_sig(ctx.quick)
    doms = [(), ("qubit",), ("bit",), ("bit", "qubit"), ("qubit", "bit"), ("qubit", "qubit")]
    uni = list(build.expr_universe("circuit", sig, doms, depth, 3))
    if not ctx.quick:
        uni = [r for r in uni if len(r[2]) <= 2] + [r for r in uni if len(r[2]) == 3][::25]
        ctx.cap_hit("depth-3 export circuits enumerated with stride 25 (depth <= 2 complete)")
    fam = directed_exports()
    if ctx.quick:
        uni = [r for r in uni if len(r[2]) <= 1] + [r for r in uni if len(r[2]) == 2][::3]
        fam = fam[::20]
        ctx.cap_hit("export circuits of depth 2 every 3rd, directed family every 20th (depth <= 1, tomography family and witnesses complete)")
    # smallest witnesses of the recorded to_tk defect families (always explored)
    E = lambda x: ("e", x)  # noqa
    noisy = "ClassicalGate('noisy', 1, 1, [0.9, 0.1, 0.2, 0.8])"
    witnesses = [
        ("circuit", ("qubit",), ((E("Measure()"), 0), (E(noisy), 0))),
        ("circuit", ("qubit", "bit"), ((E(noisy), 1), (E("Measure(override_bits=True)"), 0))),
        ("circuit", ("qubit", "qubit"), ((E("H"), 0), (E("Measure(2)"), 0), (E("Bits(0)"), 0))),
        ("circuit", ("bit",), ((E(noisy), 0), (E("Copy()"), 0), (E("Bits(0)"), 2))),
    ]
    tomo = tomography_family(ctx.quick)
    ctx.note("tomography_family", "%d closed circuits (gate sequences x measurement bases)" % len(tomo))
    ren = renaming_family()
    ctx.note("renaming_family", "%d circuits that prepare bits after post-selections were recorded" % len(ren))
    items = [("export", dict(recipe=r)) for r in witnesses + uni + fam + tomo + ren]
    # batches: ordered pairs / triples of small circuits with different scalars and post-selections
    k = build.kit("circuit")
    small = [("circuit", (), ((("e", e1), 0), (("e", e2), o))) for e1, e2, o in (
        ("Ket(0)", "H", 0), ("Ket(1)", "Bra(1)", 0), ("Ket(0)", "Measure()", 0), ("scalar(0.5j)", "Ket(1)", 0),
        ("sqrt(2)", "Ket(0)", 0), ("Ket(0)", "scalar(0.25, is_mixed=True)", 1), ("Ket(0, 1)", "Bra(0)", 0),
        ("Bits(0)", "Ket(0)", 1))]
    for a in small:
        for b in small:
            items.append(("batch", dict(recipes=[a, b])))
    for tr in itertools.permutations(small[:5], 3):
        if hash_mod(tr, 4) == 0 or not ctx.quick:
            items.append(("batch", dict(recipes=list(tr))))
    n_cmd = 2 if ctx.quick else 3
    n_imp = 0

    def add(nq, nb, seq):
        nonlocal n_imp
        items.append(("import", dict(nq=nq, nb=nb, cmds=[list(c) for c in seq])))
        n_imp += 1
    for nq, nb in ((1, 1), (2, 1), (2, 2), (3, 1), (3, 2), (4, 1)):
        cmds = tk_commands(nq, nb)
        two = [c for c in cmds if len(c[1]) == 2]                    # two-qubit gates and Measure
        far = [c for c in cmds if len(c[1]) == 2 and c[0] != "Measure" and abs(c[1][0] - c[1][1]) >= 2]
        add(nq, nb, ())
        for c in cmds:
            add(nq, nb, (c,))
        if nq <= 2:
            for seq in itertools.product(cmds, repeat=2):
                if not ctx.quick or nq == 1 or nb == 1 or hash_mod(seq, 3) == 0:
                    add(nq, nb, seq)
        elif nq == 3:
            pairs = itertools.product(cmds, repeat=2) if not ctx.quick else \
                ((a, b) for a in two for b in two if a[0] in ("CX", "CRz", "Measure") and b[0] in ("CX", "Measure"))
            for seq in pairs:
                add(nq, nb, seq)
        else:
            for a in far:     # a gate across >= 2 wires, made visible by a superposition / flip
                if a[0] in ("CX", "CRz", "CZ", "SWAP"):
                    for q in a[1]:
                        add(nq, nb, (("H", [q], []), a))
                    add(nq, nb, (("X", [a[1][0]], []), a, ("Measure", [a[1][1], 0], [])))
                    add(nq, nb, (("H", [a[1][0]], []), a, ("H", [a[1][1]], []), ("Measure", [a[1][1], 0], [])))
        if (nq, nb) == (2, 2):
            # rotation angles over several periods (tket counts half turns; CRz has period 4),
            # observed through interference: H before and after on both qubits
            for name, nargs in (("Rx", 1), ("Rz", 1), ("CRz", 2)):
                for ang in (-3.5, -2.5, -1.4, -0.5, 0.5, 1.3, 2.0, 2.5, 3.3, 4.5):
                    for args in ([[0], [1]] if nargs == 1 else [[0, 1], [1, 0]]):
                        hs = [("H", [0], []), ("H", [1], [])]
                        add(nq, nb, tuple(hs + [(name, args, [ang])] + hs + [("Measure", [0, 0], []), ("Measure", [1, 1], [])]))
                        add(nq, nb, tuple(hs + [(name, args, [ang])] + hs))
        if not ctx.quick and nq <= 2:
            for seq in itertools.product(cmds, repeat=3):
                if hash_mod(seq, 5) == 0:
                    add(nq, nb, seq)
    ctx.bounds.update(export_depth=depth, width=3, directed_family=len(fam), import_commands=n_cmd,
                      import_registers="(qubits, bits) in (1,1),(2,1),(2,2),(3,1),(3,2),(4,1)")
    ctx.note("sizes", "%d export circuits (+%d directed), %d tket circuits" % (len(uni), len(fam), n_imp))
    ctx.rule = ("export: every circuit of the universe: exact simulation of to_tk() + documented "
                "post-processing == own mixed evaluation == reference; get_counts/eval through an exact "
                "backend; from_tk(to_tk(c)). import: every tket circuit up to the bound: "
                "from_tk(t).eval(mixed=True) == exact simulation of t. nontrivial = distinct non-refused cases")
    ctx.assumptions = ["pytket get_commands()/Op.get_unitary() trusted; exact simulator in mc/tketsim.py",
                       "NotImplementedError from to_tk/from_tk is a refusal, not a violation"]
    for p in pmap(_worker, build.shards(items, 128)):
        ctx.merge(p)
    ctx.counters["traces_validated_against_impl"] = ctx.counters.get("transitions", 0)


def hash_mod(obj, k):
    return int(digest(repr(obj)), 16) % k
