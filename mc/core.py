"""Runner infrastructure shared by all checks: counters, samples, violations, known findings,
evidence and replay files, deterministic process pool.

A *check* is a module ``mc.cNN`` exposing

    run(ctx)          -- enumerate the bounded space, call ctx.* to record what happened
    CASES             -- {case name: function(params) -> list of (signature, message)}

Every violation carries ``(case, params)`` so that ``python -m mc.replay <file>`` can re-evaluate
exactly that case with plain API calls and no explorer.
"""
import copy
import hashlib
import json
import multiprocessing as mp
import os
import sys
import time
import traceback

ROOT = os.path.dirname(os.path.dirname(os.path.abspath(__file__)))
# VERIF_OUT redirects evidence and replay files (used when the checks are run against a mutated
# scratch copy of the library, so that the committed evidence of /repo is not overwritten)
_OUT = os.environ.get("VERIF_OUT") or ROOT
EVIDENCE_DIR = os.path.join(_OUT, "evidence")
REPLAY_DIR = os.path.join(_OUT, "replays")
KNOWN_FILE = os.path.join(ROOT, "known_findings.json")
MAX_SAMPLES = 6
MAX_REPLAYS = 12


def digest(obj):
    """Short stable digest of a JSON-able / repr-able object (not Python's salted hash)."""
    if isinstance(obj, dict):  # harness scratch keys ('_x') never take part in a signature
        obj = {k: v for k, v in obj.items() if not str(k).startswith("_")}
    if not isinstance(obj, (str, bytes)):
        obj = json.dumps(jsonable(obj), sort_keys=True, default=repr)
    if isinstance(obj, str):
        obj = obj.encode()
    return hashlib.blake2b(obj, digest_size=8).hexdigest()


def jsonable(obj):
    """Recursively convert to something json.dump accepts (tuples -> lists, other -> repr)."""
    if isinstance(obj, (str, int, float, bool)) or obj is None:
        return obj
    if isinstance(obj, (list, tuple)):
        return [jsonable(x) for x in obj]
    if isinstance(obj, dict):
        return {str(k): jsonable(v) for k, v in obj.items()}
    if isinstance(obj, (set, frozenset)):
        return sorted((jsonable(x) for x in obj), key=repr)
    return repr(obj)


class Part:
    """What one shard of an exploration observed.  Picklable, mergeable, order-independent
    except for samples/violations, which are merged in shard order (deterministic)."""

    def __init__(self):
        self.counters = {}
        self.samples = []
        self.distinct = {}      # bucket name -> set of digests
        self.violations = []    # dicts: signature, what, case, params
        self.notes = {}         # key -> small set of strings (e.g. outcomes seen)

    def count(self, key, n=1):
        self.counters[key] = self.counters.get(key, 0) + n

    def sample(self, obj):
        if len(self.samples) < MAX_SAMPLES:
            self.samples.append(jsonable(obj))

    def seen(self, bucket, key):
        self.distinct.setdefault(bucket, set()).add(
            key if isinstance(key, str) and len(key) <= 16 else digest(key))

    def note(self, key, value, cap=40):
        s = self.notes.setdefault(key, set())
        if len(s) < cap:
            s.add(value)

    def violation(self, signature, what, case, params):
        # keep memory bounded under a mutant that breaks everything
        self.count("violations_raw")
        if len(self.violations) < 200:
            if isinstance(params, dict):  # keys starting with '_' are harness scratch
                params = {k: v for k, v in params.items() if not str(k).startswith("_")}
            self.violations.append(dict(signature=signature, what=what, case=case,
                                        params=jsonable(params)))

    def merge(self, other):
        for k, v in other.counters.items():
            self.counters[k] = self.counters.get(k, 0) + v
        for s in other.samples:
            if len(self.samples) < MAX_SAMPLES:
                self.samples.append(s)
        for b, s in other.distinct.items():
            self.distinct.setdefault(b, set()).update(s)
        for k, s in other.notes.items():
            self.notes.setdefault(k, set()).update(s)
        room = 400 - len(self.violations)
        if room > 0:
            self.violations.extend(other.violations[:room])
        return self


def _guarded(args):
    fn, shard = args
    try:
        return fn(shard)
    except BaseException:  # a harness bug must be loud, never silently a smaller space
        return ("__harness_error__", traceback.format_exc(), repr(shard)[:300])


def pmap(fn, shards, procs=None):
    """Ordered parallel map over shards with fork workers; results merged in shard order."""
    shards = list(shards)
    procs = min(procs or int(os.environ.get("VERIF_PROCS", "16")), max(1, len(shards)))
    if procs <= 1 or os.environ.get("VERIF_SERIAL"):
        out = [_guarded((fn, s)) for s in shards]
    else:
        ctx = mp.get_context("fork")
        with ctx.Pool(procs) as pool:
            out = pool.map(_guarded, [(fn, s) for s in shards], chunksize=1)
    for r in out:
        if isinstance(r, tuple) and r and r[0] == "__harness_error__":
            raise HarnessError("worker crashed on shard %s:\n%s" % (r[2], r[1]))
    return out


class CallTimeout(Exception):
    """One library call exceeded the budget the oracle gave it (reported as non-termination)."""


class time_limit:
    """`with time_limit(5, "normal_form"):` -- an inner watchdog for a single library call that
    finishes in milliseconds on the unchanged tree.  Nests inside the per-case watchdog of safe():
    the outer timer is suspended and re-armed with what was left of it."""

    def __init__(self, seconds, what="call"):
        self.seconds, self.what = seconds, what

    def __enter__(self):
        import signal, time
        self.armed = False
        try:
            self.old = signal.signal(signal.SIGVTALRM, self._on_alarm)
        except ValueError:
            return self
        self.armed, self.t0 = True, time.process_time()
        if time_limit.fired >= 3:      # established: keep the run short (replays start at 0)
            self.seconds = min(self.seconds, 1.0)
        self.left, _ = signal.setitimer(signal.ITIMER_VIRTUAL, self.seconds)
        return self

    fired = 0

    def _on_alarm(self, signum, frame):
        time_limit.fired += 1
        raise CallTimeout("%s did not return within %.0f s (non-termination?)" % (self.what, self.seconds))

    def __exit__(self, *exc):
        import signal, time
        if self.armed:
            _, _ = signal.setitimer(signal.ITIMER_VIRTUAL, 0)
            signal.signal(signal.SIGVTALRM, self.old)
            if self.left:
                used = time.process_time() - self.t0
                signal.setitimer(signal.ITIMER_VIRTUAL, max(0.05, self.left - used))
        return False


_TIMEOUTS_SEEN = [0]


def safe(pid, fn):
    """Wrap a case function: an exception escaping the oracle while it drives the library is
    reported as a violation of kind 'crash' (it reproduces on replay like any other), instead of
    killing the exploration.  On the unchanged tree no case may crash."""
    limit = float(os.environ.get("VERIF_CASE_TIMEOUT", "120"))

    fired = [False]

    def on_alarm(signum, frame):
        _TIMEOUTS_SEEN[0] += 1
        fired[0] = True
        raise CaseTimeout("no result within %.0f s of CPU time (non-termination?)" % limit)

    def wrapped(params):
        import signal
        old = None
        fired[0] = False
        try:
            # CPU time of this process, not wall-clock time: the budget does not depend on how busy the machine is
            old = signal.signal(signal.SIGVTALRM, on_alarm)
            # once cases of this process have timed out the violation is established: later cases
            # get a shorter budget so that the run still ends (the replay uses the full budget)
            signal.setitimer(signal.ITIMER_VIRTUAL, limit if _TIMEOUTS_SEEN[0] < 2 else min(limit, 30.0))
        except ValueError:      # not in the main thread of the process: no watchdog
            old = None
        try:
            res = fn(params)
            if fired[0]:
                # the alarm went off inside library code that swallowed the exception: whatever
                # was computed afterwards is not trustworthy -- report the timeout itself
                raise CaseTimeout("no result within %.0f s of CPU time (the interruption was swallowed by the code under test)" % limit)
            return res
        except Exception as e:  # noqa
            tb = traceback.extract_tb(e.__traceback__)
            where = "%s:%d" % (os.path.basename(tb[-1].filename), tb[-1].lineno) if tb else "?"
            return [("%s:crash:%s" % (pid, digest(params)),
                     "case raised %s: %s (at %s) on %s" % (type(e).__name__, str(e)[:200], where,
                                                         json.dumps(jsonable(params))[:300]))]
        finally:
            if old is not None:
                signal.setitimer(signal.ITIMER_VIRTUAL, 0)
                signal.signal(signal.SIGVTALRM, old)
            if fired[0]:
                try:        # an interrupted sympy computation may have left partial results in its caches
                    from sympy.core.cache import clear_cache
                    clear_cache()
                except Exception:  # noqa
                    pass
    wrapped.__name__ = getattr(fn, "__name__", "case")
    return wrapped


class CaseTimeout(Exception):
    """A single case exceeded its wall-clock budget."""


class HarnessError(Exception):
    """The machinery itself is broken (never reported as a property violation)."""


def load_known():
    if not os.path.exists(KNOWN_FILE):
        return []
    with open(KNOWN_FILE) as f:
        return json.load(f)["findings"]


class Ctx(Part):
    def __init__(self, pid, tier, seed):
        super().__init__()
        self.pid, self.tier, self.seed = pid, tier, seed
        self.t0 = time.time()
        self.bounds = {}
        self.rule = ""
        self.assumptions = []
        self.exhaustive = True
        self.caps = []
        self.level = "model_checking"

    @property
    def quick(self):
        return self.tier == "quick"

    def cap_hit(self, what):
        """A budget/cap stopped an enumeration early: the run is not exhaustive for that part."""
        self.exhaustive = False
        self.caps.append(what)

    def finish(self, module):
        known = {k["signature"]: k for k in load_known()
                 if k["property"] == self.pid and k["status"] == "known"}
        # group by signature, first occurrence is the representative (deterministic order)
        groups = {}
        for v in self.violations:
            groups.setdefault(v["signature"], []).append(v)
        new, known_hit = [], []
        for sig, vs in groups.items():
            (known_hit if sig in known else new).append((sig, vs))
        # confirm each new violation by replaying it once from its recipe, in this process
        confirmed = []
        for sig, vs in new:
            v = vs[0]
            res = module.CASES[v["case"]](copy.deepcopy(v["params"]))
            sigs = [s for s, _ in res]
            if sig not in sigs:
                # Observed during the exploration but not when the same case is re-run alone:
                # the outcome depends on what the process evaluated before, i.e. on hidden
                # state (in the library, e.g. a module-level cache -- or in the harness).  It is
                # reported, flagged as history-dependent; it can only happen if something was
                # observed to go wrong in the first place.
                vs[0]["what"] += ("  [HISTORY-DEPENDENT: did not reproduce when replayed alone "
                                  "(got %r); hidden state between calls]" % (sigs,))
            confirmed.append((sig, vs))
        if os.environ.get("VERIF_DUMP"):   # developer aid: every raw violation, not only the first 12
            with open(os.environ["VERIF_DUMP"], "w") as f:
                json.dump(self.violations, f, indent=1)
        os.makedirs(os.path.join(REPLAY_DIR, self.pid), exist_ok=True)
        lines = []
        for sig, vs in known_hit:
            lines.append("KNOWN-FINDING: property=%s %s [%s; %d occurrence(s) in explored space]"
                         % (self.pid, known[sig]["what"], sig, len(vs)))
        for n, (sig, vs) in enumerate(confirmed[:MAX_REPLAYS]):
            path = os.path.join(REPLAY_DIR, self.pid, "%d.json" % n)
            with open(path, "w") as f:
                json.dump(dict(property=self.pid, signature=sig, what=vs[0]["what"],
                               case=vs[0]["case"], params=vs[0]["params"],
                               occurrences=len(vs)), f, indent=1)
            lines.append("VIOLATION property=%s replay=%s" % (self.pid, path))
            lines.append("  signature=%s\n  %s" % (sig, vs[0]["what"]))
        cov = dict(self.counters)
        cov.pop("violations_raw", None)
        cov.setdefault("states", 0)
        cov.setdefault("transitions", 0)
        cov.setdefault("traces_validated_against_impl", cov.get("transitions", 0))
        cov["evaluations"] = cov.get("evaluations", cov["transitions"])
        cov["distinct_nontrivial"] = len(self.distinct.get("nontrivial", ()))
        cov["distinct"] = {b: len(s) for b, s in sorted(self.distinct.items())}
        cov["outcomes"] = {k: sorted(v) for k, v in sorted(self.notes.items())}
        cov["rule"] = self.rule
        cov["samples"] = self.samples
        cov["exhaustive"] = bool(self.exhaustive)
        cov["bounds"] = self.bounds
        cov["caps_hit"] = self.caps
        cov["known_findings_reproduced"] = sorted(sig for sig, _ in known_hit)
        ev = dict(property_id=self.pid, tier=self.tier, seed=self.seed, level=self.level,
                  coverage=cov, assumptions=self.assumptions,
                  wall_s=round(time.time() - self.t0, 2), violations=len(confirmed))
        os.makedirs(EVIDENCE_DIR, exist_ok=True)
        with open(os.path.join(EVIDENCE_DIR, self.pid + ".json"), "w") as f:
            json.dump(ev, f, indent=1, sort_keys=True)
        for line in lines:
            print(line)
        print("%s tier=%s seed=%d states=%d transitions=%d validated=%d nontrivial=%d "
              "violations=%d known=%d exhaustive=%s wall=%.1fs"
              % (self.pid, self.tier, self.seed, cov["states"], cov["transitions"],
                 cov["traces_validated_against_impl"], cov["distinct_nontrivial"],
                 len(confirmed), len(known_hit), cov["exhaustive"], ev["wall_s"]))
        sys.stdout.flush()
        return 1 if confirmed else 0
