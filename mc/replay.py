"""python -m mc.replay <file.json>: rebuild the recorded case with plain API calls and
re-evaluate only its oracle (no explorer).  Exit 1 if the violation reproduces."""
import importlib
import json
import os
import sys

for _v in ("OMP_NUM_THREADS", "OPENBLAS_NUM_THREADS", "MKL_NUM_THREADS"):
    os.environ.setdefault(_v, "1")
os.environ.setdefault("MPLBACKEND", "Agg")
os.environ["DISCOPY_VERIF"] = "1"
if "/repo" not in sys.path:
    sys.path.insert(0, os.environ.get("DISCOPY_REPO", "/repo"))


def main(path):
    with open(path) as f:
        rec = json.load(f)
    mod = importlib.import_module("mc." + rec["property"].lower())
    res = mod.CASES[rec["case"]](rec["params"])
    print("case=%s params=%s" % (rec["case"], json.dumps(rec["params"])[:2000]))
    hit = False
    for sig, msg in res:
        print("  observed: %s :: %s" % (sig, msg))
        hit = hit or sig == rec["signature"]
    print("REPRODUCED" if hit else "not reproduced (property holds on this case now)")
    return 1 if hit else 0


if __name__ == "__main__":
    sys.exit(main(sys.argv[1]))
