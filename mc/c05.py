"""C05 -- interchange moves exactly one box past a disconnected neighbour.

Space: every diagram of the (linear-named) shape universe, every (i, j) in [-1, n]^2, both `left`
flags; plus every *sequence* of interchanges: BFS over the interchanger class of each diagram
in the reference move graph, each edge replayed on the implementation.
Oracle: the declarative interchange axiom (ref.legal_moves), box-order bookkeeping, C01 scan,
wiring graph, exact matrix semantics under a generic functor.
"""
import numpy as np

from mc import ref, build
from mc.core import Part, pmap, digest

DIMS = {"x": 2, "y": 3}


def _mat_of(seed):
    def mat_of(b, dd, dc):
        return ref.generic_array(name_key(b), ref.prod(dd), ref.prod(dc), seed)
    return mat_of


def _sig(kind, params):
    return "C05:%s:%s" % (kind, digest(params))


def name_key(b):
    return str(b.name) if hasattr(b, "name") else "<%s>" % (b,)   # boxes of a foliation are diagrams


def check_call(params):
    """One call d.interchange(i, j, left) against the reference.  Returns [(sig, msg)]."""
    from discopy.rewriting import InterchangerError
    recipe, i, j, left = params["recipe"], params["i"], params["j"], params["left"]
    seed = params.get("seed", 0)
    recipe = _norm_recipe(recipe)
    d = build_any(recipe)
    n = len(d)
    out = []

    def bad(kind, msg):
        out.append((_sig(kind, params), "interchange(%d, %d, left=%s) on %s: %s"
                    % (i, j, left, d, msg)))
    try:
        res, exc = d.interchange(i, j, left=left), None
    except Exception as e:  # noqa
        res, exc = None, e
    if not (0 <= i < n and 0 <= j < n):
        if not isinstance(exc, IndexError):
            bad("index", "out-of-range indices must raise IndexError, got %r"
                % (exc if exc is not None else res))
        return out
    if i == j:
        if exc is not None or ref.diagram_key(res) != ref.diagram_key(d):
            bad("noop", "i == j must return the diagram unchanged, got %r" % (exc or res))
        return out
    # step-by-step fold of adjacent moves, each validated against the axiom model
    cur = d
    steps = [(i + k, i + k + 1) for k in range(j - i)] if i < j \
        else [(i - k, i - k - 1) for k in range(i - j)]
    blocked = None
    for a, b in steps:
        m = ref.to_model(cur, name_key)
        legal = ref.legal_moves(m, min(a, b))
        try:
            nxt, e2 = cur.interchange(a, b, left=left), None
        except Exception as e:  # noqa
            nxt, e2 = None, e
        if not legal:
            if not isinstance(e2, InterchangerError):
                bad("accept-illegal", "step (%d,%d): no instance of the interchange axiom "
                    "applies but got %r" % (a, b, e2 if e2 is not None else nxt))
                return out
            blocked = (a, b)
            break
        if e2 is not None:
            bad("refuse-legal", "step (%d,%d): axiom applies (%s) but raised %r"
                % (a, b, [p for p, _ in legal], e2))
            return out
        got = ref.to_model(nxt, name_key)
        if got not in [s for _, s in legal]:
            bad("not-a-move", "step (%d,%d): result %s is not one of the legal successors %s"
                % (a, b, got[1], [s[1] for _, s in legal]))
            return out
        cur = nxt
    if blocked is not None:
        if not isinstance(exc, InterchangerError):
            bad("accept-blocked", "a box on the way is attached at step %s; expected "
                "InterchangerError, got %r" % (blocked, exc if exc is not None else res))
        return out
    if exc is not None:
        bad("refuse-free", "every step on the way is a legal interchange but got %r" % (exc,))
        return out
    if ref.diagram_key(res) != ref.diagram_key(cur):
        bad("fold", "direct result %s differs from the fold of adjacent moves %s"
            % (ref.to_model(res, name_key)[1], ref.to_model(cur, name_key)[1]))
    # structural bookkeeping on the returned value
    errs = ref.scan(res)
    if errs:
        bad("illtyped", "result is ill-typed: %s" % errs[:3])
        return out
    if ref.ty_key(res.dom) != ref.ty_key(d.dom) or ref.ty_key(res.cod) != ref.ty_key(d.cod):
        bad("domcod", "dom/cod changed")
    names = [name_key(b) for b in d.boxes]
    want = names[:i] + names[i + 1:]
    want.insert(j, names[i])
    got = [name_key(b) for b in res.boxes]
    if got != want:
        bad("order", "box order %s, expected %s" % (got, want))
    if type(res) is not type(d) and not isinstance(d, type(res)):
        pass  # class of the result is not part of C05
    if len(set(names)) == len(names):   # occurrences are identifiable by name
        w0, w1 = ref.wiring(ref.to_model(d, name_key)), ref.wiring(ref.to_model(res, name_key))
        if w0 != w1:
            bad("wiring", "wiring graph changed")
    atoms = set(ref.ty_key(d.dom)) | {a for b in d.boxes for a in ref.ty_key(b.dom) + ref.ty_key(b.cod)}
    if atoms <= set(DIMS):   # generic-matrix semantics for the monoidal universes
        dim_of = lambda a: DIMS[a]  # noqa
        m0 = ref.ref_eval(d, dim_of, _mat_of(seed))
        m1 = ref.ref_eval(res, dim_of, _mat_of(seed))
        if m0.shape != m1.shape or not np.array_equal(m0, m1):
            bad("semantics", "matrix under the generic functor changed")
    return out


def build_any(recipe):
    if recipe[0] == "zoo":
        from mc import zoo
        return zoo.value(recipe[1], recipe[2])
    if recipe[0] == "tensor":      # bubbles in tensor diagrams need the polynomial of the alphabet
        build.kit("tensor").ns["poly"] = lambda v: v * v + 1
    return build.build(recipe)


def _tup(x):
    return tuple(x) if isinstance(x, list) else x


def _norm_recipe(recipe):
    def t(x):
        return tuple(t(y) for y in x) if isinstance(x, (list, tuple)) else x
    return t(recipe)


def check_class(params):
    """BFS over the interchanger class of a seed diagram in the *reference* move graph; every
    edge is replayed on the implementation with both flags (conformance), every non-edge must
    be refused.  Returns [(sig, msg)] and fills params['_stats'] if present."""
    from discopy.rewriting import InterchangerError
    recipe = _norm_recipe(params["recipe"])
    cap = params.get("cap", 5000)
    d0 = build.build(recipe)
    m0 = ref.to_model(d0, name_key)
    seen = {m0: d0}
    frontier = [m0]
    out = []
    edges = 0
    while frontier:
        m = frontier.pop(0)
        d = seen[m]
        for i in range(len(m[1]) - 1):
            legal = ref.legal_moves(m, i)
            succ = [s for _, s in legal]
            produced = {}
            for left in (False, True):
                for (a, b) in ((i, i + 1), (i + 1, i)):
                    try:
                        r, e = d.interchange(a, b, left=left), None
                    except Exception as ex:  # noqa
                        r, e = None, ex
                    edges += 1
                    if not legal:
                        if not isinstance(e, InterchangerError):
                            out.append((_sig("class-accept-illegal", [recipe, m[1], a, b, left]),
                                        "from %s: interchange(%d,%d,left=%s) must be refused, "
                                        "got %r" % (d, a, b, left, e or r)))
                        continue
                    if e is not None:
                        out.append((_sig("class-refuse-legal", [recipe, m[1], a, b, left]),
                                    "from %s: interchange(%d,%d,left=%s) raised %r"
                                    % (d, a, b, left, e)))
                        continue
                    rm = ref.to_model(r, name_key)
                    if rm not in succ:
                        out.append((_sig("class-not-a-move", [recipe, m[1], a, b, left]),
                                    "from %s: interchange(%d,%d,left=%s) gave %s not in %s"
                                    % (d, a, b, left, rm[1], [s[1] for s in succ])))
                        continue
                    errs = ref.scan(r)
                    if errs:
                        out.append((_sig("class-illtyped", [recipe, m[1], a, b, left]),
                                    "from %s: interchange(%d,%d,left=%s) ill-typed: %s"
                                    % (d, a, b, left, errs[:2])))
                    else:
                        produced.setdefault(rm, r)
            for s in succ:
                if s not in seen:
                    if len(seen) >= cap:
                        params["_capped"] = True
                        continue
                    # carry the value the implementation itself produced (so walks are real
                    # chains of interchange() calls); its layers were just certified by the
                    # scan, so the hidden per-layer view is a function of the key
                    seen[s] = produced.get(s) or _from_model(recipe[0], s)
                    frontier.append(s)
        if out:
            break
    params["_stats"] = (len(seen), edges)
    return out


def _from_model(cls, m):
    k = build.kit(cls)
    dom, layers = m
    d = k.Id(k.ty(dom))
    for (name, bd, bc), off in layers:
        b = k.Box(name, k.ty(bd), k.ty(bc))
        d = d >> k.Id(d.cod[:off]) @ b @ k.Id(d.cod[off + len(bd):])
    return d


from mc.core import safe  # noqa: E402
CASES = {k: safe("C05", f) for k, f in {"call": check_call, "class": check_class}.items()}


def _worker(shard):
    """Class BFS (sequences of interchanges) from one representative per interchanger class."""
    part = Part()
    seed, items = shard
    for recipe in items:
        params = dict(recipe=recipe)
        res = CASES["class"](params)
        st = params.pop("_stats", (0, 0))
        part.count("class_states", st[0])
        part.count("class_edges_replayed", st[1])
        part.count("traces_validated_against_impl", st[1])
        part.note("class_sizes", st[0])
        if params.pop("_capped", False):
            part.count("class_capped")
        for sig, msg in res:
            part.violation(sig, msg, "class", params)
    return part


def _class_ids(shard):
    from mc import c06
    out = []
    for recipe in shard:
        m = build.to_model(recipe)
        if len(m[1]) < 2:
            continue
        members, capped = c06.model_class(m, cap=2000)
        out.append((recipe, c06.class_id(members) if not capped else "capped:" + digest(repr(m))))
    return out


def _worker_calls_linear(shard):
    part = _worker_calls(shard, validated=True)
    return part


def _worker_calls(shard, validated=False):
    part = Part()
    seed, items = shard
    for recipe in items:
        n = len(recipe[2]) if recipe[0] != "zoo" else len(build_any(recipe))
        part.count("states")
        for i in range(-1, n + 1):
            for j in range(-1, n + 1):
                for left in (False, True):
                    params = dict(recipe=recipe, i=i, j=j, left=left, seed=seed)
                    res = CASES["call"](params)
                    part.count("transitions")
                    if validated and 0 <= i < n and 0 <= j < n and i != j:
                        part.count("traces_validated_against_impl", abs(i - j))
                    for sig, msg in res:
                        part.violation(sig, msg, "call", params)
        if n >= 2:
            part.seen("nontrivial", repr(recipe))
        if len(part.samples) < 2 and n >= 2:
            part.sample(dict(recipe=recipe, calls="all (i,j) in [-1,%d]^2 x left" % n))
    return part


def universes(ctx):
    """List of (label, iterator of recipes)."""
    sig_x = build.shape_signature(("x",), 2)
    # mixed-type alphabet: all shapes with |dom|,|cod| <= 1 over {x,y} plus asymmetric 2-arity
    sig_xy = [s for s in build.shape_signature(("x", "y"), 1)]
    sig_xy += [("box", "sxy_x", ("x", "y"), ("x",)), ("box", "sy_yx", ("y",), ("y", "x")),
               ("box", "sx_xy", ("x",), ("x", "y")), ("box", "syx_", ("y", "x"), ()),
               ("box", "s_xy", (), ("x", "y"))]
    doms_x = build.all_types(("x",), 3)
    doms_xy = build.all_types(("x", "y"), 2)
    if ctx.quick:
        plan = [("x:depth<=3,width<=3", sig_x, doms_x, 3, 3),
                ("xy:depth<=2,width<=3", sig_xy, doms_xy, 2, 3)]
    else:
        plan = [("x:depth<=4,width<=3", sig_x, doms_x, 4, 3),
                ("x:depth<=5,width<=2", sig_x, build.all_types(("x",), 2), 5, 2),
                ("xy:depth<=3,width<=3", sig_xy, doms_xy, 3, 3)]
    ctx.bounds["universes"] = [p[0] for p in plan]
    ctx.bounds["alphabet_x"] = [s[1] for s in sig_x]
    ctx.bounds["alphabet_xy"] = [s[1] for s in sig_xy]
    for label, sig, doms, depth, width in plan:
        yield label, build.universe("monoidal", sig, doms, depth, width, linear=True)


def run(ctx):
    ctx.rule = ("every diagram of the linear-named shape universe x every (i,j) in [-1,n]^2 x "
                "left in {F,T}, checked against the declarative interchange axiom; plus BFS of "
                "the whole interchanger class of every diagram with every edge/non-edge "
                "replayed on the implementation. nontrivial = distinct diagrams with >= 2 boxes")
    ctx.assumptions = ["numpy matmul/kron are correct (reference semantics)",
                       "diagrams beyond the stated depth/width bounds are not covered"]
    seen = set()
    for label, recipes in universes(ctx):
        items = [r for r in recipes if r not in seen]
        seen.update(items)
        ctx.note("universe_sizes", "%s=%d" % (label, len(items)))
        # every call on every diagram
        for p in pmap(_worker_calls_linear, [(ctx.seed, s) for s in build.shards(items, 64)]):
            ctx.merge(p)
        # sequences: walk each interchanger class once, from one representative
        reps = {}
        for chunk in pmap(_class_ids, build.shards(items, 64)):
            for recipe, cid in chunk:
                reps.setdefault(cid, recipe)
        ctx.note("classes", "%s: %d classes" % (label, len(reps)))
        for p in pmap(_worker, [(ctx.seed, s) for s in build.shards([reps[k] for k in sorted(reps)], 64)]):
            ctx.merge(p)
    # other diagram classes (boxes without a dagger, bubbles, typed wires): every call on every diagram
    from mc import pools
    bub = [("tbox", "a", (2,), (3,)), ("tbox", "c", (), (2,)), ("tbox", "d", (2, 3), ()),
           ("e", "Box('p', Dim(2), Dim(2), [1, 2, 3, 4]).bubble(func=poly)"),
           ("e", "Box('q', Dim(3), Dim(2), [1, 2, 3, 4, 5, 6]).bubble(func=poly)"), ("e", "Spider(1, 2, 2)")]
    build.kit("tensor").ns["poly"] = lambda v: v * v + 1
    extra = [("cartesian", pools.recipes("cartesian", 3 if not ctx.quick else 2, 3)),
             ("biclosed", pools.recipes("biclosed", 2, 3)),
             ("tensor+bubbles", list(build.expr_universe("tensor", bub, [(), (2,), (2, 3)], 3, 3))),
             ("circuit", pools.recipes("circuit", 2, 3)[:: (4 if ctx.quick else 1)])]
    for label, rs in extra:
        rs = [r for r in rs if len(r[2]) >= 2]
        ctx.note("universe_sizes", "%s=%d" % (label, len(rs)))
        for p in pmap(_worker_calls, [(ctx.seed, sh) for sh in build.shards(rs, 32)]):
            ctx.merge(p)
    # composite subclasses (own constructors), foliations (boxes that are diagrams), and every
    # two-box tensor / composite of zoo boxes of each class
    from mc import zoo
    zs = []
    for cls in zoo.CLASSES:
        if cls == "cat":
            continue
        for e in zoo.COMPOSITES.get(cls, []):
            zs.append(("zoo", cls, e))
        boxes = zoo.BOXES[cls]
        reps = boxes[:: max(1, len(boxes) // (6 if ctx.quick else 14))]
        vals = {}
        for a in boxes:
            try:
                vals[a] = zoo.value(cls, a)
            except Exception:
                pass
        for a in boxes:
            for b in reps:
                zs.append(("zoo", cls, "(%s) @ (%s)" % (a, b)))
                zs.append(("zoo", cls, "(%s) @ (%s) @ (%s)" % (b, a, b)))
            # wired pairs (the move must be refused with InterchangerError, whatever the boxes are)
            for b in (boxes if len(boxes) <= 40 else reps):
                if a in vals and b in vals and len(vals[a].cod) and ref.ty_key(vals[a].cod) == ref.ty_key(vals[b].dom):
                    zs.append(("zoo", cls, "(%s) >> (%s)" % (a, b)))
    if ctx.quick:
        ctx.cap_hit("zoo: second operand of the two/three-box products ranges over 6 representatives per class")
    zs = [r for r in zs if len(build_any(r)) >= 2]
    ctx.note("universe_sizes", "zoo=%d" % len(zs))
    for p in pmap(_worker_calls, [(ctx.seed, sh) for sh in build.shards(zs, 32)]):
        ctx.merge(p)
    if ctx.counters.get("class_capped"):
        ctx.cap_hit("class BFS cap reached for %d seeds" % ctx.counters["class_capped"])
