"""Exact simulator of a tket command list (read through get_commands()) and an exact backend.

State: {classical bit values: unnormalised density matrix of all qubits}.  Gates act by
pytket's own Op.get_unitary(); Measure(q, b) branches on the projective outcome and writes b.
Qubit i of circuit.qubits is the i-th most significant tensor factor (ILO-BE); a k-qubit op on
(q_a, q_b, ...) has q_a as its most significant local qubit."""
import itertools

import numpy as np


def embed(u, positions, n):
    """Matrix on n qubits of the k-qubit matrix u acting on the given qubit positions."""
    k = len(positions)
    dim = 2 ** n
    full = np.zeros((dim, dim), dtype=complex)
    for col in range(dim):
        bits = [(col >> (n - 1 - q)) & 1 for q in range(n)]
        sub_in = 0
        for p in positions:
            sub_in = 2 * sub_in + bits[p]
        for sub_out in range(2 ** k):
            amp = u[sub_out, sub_in]
            if amp == 0:
                continue
            out = list(bits)
            for j, p in enumerate(positions):
                out[p] = (sub_out >> (k - 1 - j)) & 1
            row = 0
            for x in out:
                row = 2 * row + x
            full[row, col] += amp
    return full


def simulate(tk_circ, tol=1e-14):
    """{bitstring over all bits of the circuit (register order): probability}."""
    return {cbits: float(np.trace(rho).real) for cbits, rho in simulate_state(tk_circ, tol).items()}


def simulate_state(tk_circ, tol=1e-14):
    """{bitstring over all bits: unnormalised density matrix of all qubits (row = ket index)}."""
    qubits, bits = list(tk_circ.qubits), list(tk_circ.bits)
    nq, nb = len(qubits), len(bits)
    qi = {q: i for i, q in enumerate(qubits)}
    bi = {b: i for i, b in enumerate(bits)}
    rho0 = np.zeros((2 ** nq, 2 ** nq), dtype=complex)
    rho0[0, 0] = 1
    state = {(0,) * nb: rho0}
    for cmd in tk_circ.get_commands():
        name = cmd.op.type.name
        if name == "Measure":
            q, b = qi[cmd.qubits[0]], bi[cmd.bits[0]]
            new = {}
            for cbits, rho in state.items():
                for outcome in (0, 1):
                    proj = embed(np.diag([1 - outcome, outcome]).astype(complex), [q], nq)
                    r = proj @ rho @ proj
                    if abs(np.trace(r)) > tol:
                        key = cbits[:b] + (outcome,) + cbits[b + 1:]
                        new[key] = new.get(key, 0) + r
            state = new
        elif name in ("Barrier",):
            continue
        else:
            if cmd.bits:
                raise NotImplementedError("classically controlled op %s" % name)
            u = np.array(cmd.op.get_unitary(), dtype=complex)
            full = embed(u, [qi[q] for q in cmd.qubits], nq)
            state = {cbits: full @ rho @ full.conj().T for cbits, rho in state.items()}
    return state


class _Result:
    def __init__(self, counts):
        self._counts = counts

    def get_counts(self):
        return dict(self._counts)


class ExactBackend:
    """Duck-typed pytket backend returning exact frequencies (what get_counts/eval need)."""

    def __init__(self, by_shots=False):
        """by_shots: return frequency * n_shots (what a shot-based backend returns before
        normalisation) instead of the frequency itself."""
        self.results, self.calls, self.by_shots, self.seen_shots = [], 0, by_shots, []

    def process_circuits(self, circuits, n_shots=None, seed=None, **_):
        self.calls += 1
        self.seen_shots.append(n_shots)
        base = len(self.results)
        k = (n_shots or 1) if self.by_shots else 1
        for c in circuits:
            self.results.append({key: v * k for key, v in simulate(c).items() if v > 1e-15})
        return list(range(base, len(self.results)))

    def get_result(self, handle):
        return _Result(self.results[handle])
