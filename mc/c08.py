"""C08 -- tensors form a dagger compact-closed category of matrices.

Space: every (dom, cod) pair of dimension tuples over {2, 3} up to the length bound (with 1s
inserted, which Dim must drop), generic Gaussian-integer arrays; every composable pair, every
pair for the Kronecker product, every swap, cups/caps of every type, interchange law and swap
naturality on all pairs.  Oracle: matrices flatten(dom) x flatten(cod) with numpy matmul / kron /
conj().T and index-by-index permutation and cup matrices; exact equality.
"""
import itertools

import numpy as np

from mc import ref, build
from mc.core import Part, pmap, digest, safe
from mc.c10 import perm_matrix


def _sig(kind, params):
    return "C08:%s:%s" % (kind, digest(params))


def dims_menu(maxlen):
    return [t for n in range(maxlen + 1) for t in itertools.product((2, 3), repeat=n)]


KINDS = ("gauss", "int", "object", "symbolic")
XV = 2 + 3j     # value given to the symbol when a symbolic array is read back (exact arithmetic)


def raw_of(dom, cod, tag, seed=0, kind="gauss"):
    """The reference matrix (complex numbers) of the generic tensor of that shape and entry kind."""
    raw = ref.generic_array("%s:%s:%s" % (tag, dom, cod), ref.prod(dom), ref.prod(cod), seed)
    if kind == "int":
        return raw.real.astype(complex)
    if kind == "symbolic":       # entry (i, j) is multiplied by the symbol when i + j is odd
        mask = np.fromfunction(lambda i, j: (i + j) % 2, raw.shape)
        return np.where(mask == 1, raw * XV, raw)
    return raw


def T(dom, cod, tag, seed=0, kind="gauss"):
    """Generic tensor; kind = how the entries are stored: complex dtype, integer dtype, object
    dtype holding Python complex numbers, object dtype holding sympy expressions in a symbol."""
    from discopy.tensor import Tensor, Dim
    raw = ref.generic_array("%s:%s:%s" % (tag, dom, cod), ref.prod(dom), ref.prod(cod), seed)
    if kind == "int":
        data = raw.real.astype(int)
    elif kind == "object":
        data = np.array([complex(v) for v in raw.flatten()], dtype=object).reshape(raw.shape)
    elif kind == "symbolic":
        import sympy
        x = sympy.Symbol("x")
        flat = []
        for (i, j), v in np.ndenumerate(raw):
            e = sympy.Integer(int(v.real)) + sympy.I * sympy.Integer(int(v.imag))
            flat.append(e * x if (i + j) % 2 else e)
        data = np.array(flat, dtype=object).reshape(raw.shape)
    else:
        data = raw
    return Tensor(Dim(*dom), Dim(*cod), data)


def M(t):
    """Matrix of a Tensor: flattened dom x flattened cod (symbols read at x = XV)."""
    d = [o.name for o in t.dom.objects]
    arr = np.asarray(t.array)
    if arr.dtype == object:
        import sympy
        x = sympy.Symbol("x")
        vals = []
        for v in arr.flatten():
            if isinstance(v, (int, float, complex)):
                vals.append(complex(v))
                continue
            e = sympy.expand(sympy.sympify(v).subs(x, sympy.Integer(2) + 3 * sympy.I))   # exact Gaussian integer
            vals.append(complex(int(sympy.re(e)), int(sympy.im(e))))
        arr = np.array(vals, dtype=complex)
    return arr.reshape(ref.prod(d), -1)


def dimsof(ty):
    return tuple(o.name for o in ty.objects)


def cup_ref(left):
    """Matrix of cups(left, left.r): 1 where the right indices are the left ones reversed."""
    n = len(left)
    rows = ref.prod(left) ** 2
    m = np.zeros((rows, 1))
    dims = list(left) + list(left[::-1])
    for idx in itertools.product(*[range(k) for k in left]):
        full = list(idx) + list(idx[::-1])
        r = 0
        for k, v in zip(dims, full):
            r = r * k + v
        m[r, 0] = 1
    return m


def check_single(params):
    from discopy.tensor import Tensor, Dim
    dom, cod = tuple(params["dom"]), tuple(params["cod"])
    seed = params.get("seed", 0)
    out = []

    def bad(kind, msg):
        out.append((_sig(kind, params), "Tensor %s -> %s: %s" % (dom, cod, msg)))
    kind = params.get("kind", "gauss")
    t = T(dom, cod, "f", seed, kind)
    raw = raw_of(dom, cod, "f", seed, kind)
    if dimsof(t.dom) != dom or dimsof(t.cod) != cod or t.array.shape != (dom + cod or (1,)):
        bad("shape", "dom/cod/shape = %s %s %s" % (t.dom, t.cod, t.array.shape))
        return out
    if not np.array_equal(M(t), raw):
        bad("array", "array is not the given data in flattened (dom, cod) order")
    # Dim drops 1s wherever they are inserted
    for k in range(len(dom) + 1):
        d1 = Dim(*(dom[:k] + (1,) + dom[k:]))
        if dimsof(d1) != dom:
            bad("dim-one", "Dim%s = %s" % (dom[:k] + (1,) + dom[k:], d1))
    dg = t.dagger()
    if dimsof(dg.dom) != cod or dimsof(dg.cod) != dom or not np.array_equal(M(dg), raw.conj().T):
        bad("dagger", "dagger is not the conjugate transpose")
    if not np.array_equal(M(dg.dagger()), raw):
        bad("dagger-involution", "dagger twice is not the identity")
    i = Tensor.id(Dim(*dom))
    if dimsof(i.dom) != dom or dimsof(i.cod) != dom or not np.array_equal(M(i), np.eye(ref.prod(dom))):
        bad("id", "Tensor.id is not the identity matrix")
    if not np.array_equal(M(Tensor.id(Dim(*dom)) >> t), raw) or not np.array_equal(M(t >> Tensor.id(Dim(*cod))), raw):
        bad("unit", "id >> f or f >> id differs from f")
    # cups / caps and the snake equations for the type `dom`
    x = Dim(*dom)
    cups, caps = Tensor.cups(x, x.r), Tensor.caps(x.r, x)
    if dimsof(cups.dom) != dom + dom[::-1] or dimsof(cups.cod) != () or \
            not np.array_equal(M(cups), cup_ref(dom)):
        bad("cups", "cups(x, x.r) : %s -> %s is not the reference cup matrix" % (cups.dom, cups.cod))
    if dimsof(caps.cod) != dom[::-1] + dom or dimsof(caps.dom) != () or \
            not np.array_equal(M(caps), cup_ref(dom[::-1]).T):
        bad("caps", "caps(x.r, x) : %s -> %s is not the reference cap matrix" % (caps.dom, caps.cod))
    try:
        ident = np.eye(ref.prod(dom))
        s1 = Tensor.id(x) @ Tensor.caps(x.r, x) >> Tensor.cups(x, x.r) @ Tensor.id(x)
        s2 = Tensor.caps(x, x.l) @ Tensor.id(x) >> Tensor.id(x) @ Tensor.cups(x.l, x)
        if dimsof(s1.dom) != dom or dimsof(s1.cod) != dom or not np.array_equal(M(s1), ident):
            bad("snake-left", "Id @ caps(x.r, x) >> cups(x, x.r) @ Id != Id")
        if dimsof(s2.dom) != dom or dimsof(s2.cod) != dom or not np.array_equal(M(s2), ident):
            bad("snake-right", "caps(x, x.l) @ Id >> Id @ cups(x.l, x) != Id")
    except Exception as e:  # noqa
        bad("snake-raises", "%r" % (e,))
    # results belong to the caller: overwriting their arrays in place must leave the operand intact
    for label, thunk in (("dagger", lambda: t.dagger()), ("id >> f", lambda: Tensor.id(Dim(*dom)) >> t),
                         ("f >> id", lambda: t >> Tensor.id(Dim(*cod))), ("f @ id()", lambda: t @ Tensor.id(Dim(1))),
                         ("id() @ f", lambda: Tensor.id(Dim(1)) @ t), ("dagger.dagger", lambda: t.dagger().dagger())):
        r = thunk()
        a = r.array
        if isinstance(a, np.ndarray) and a.flags.writeable and a.size and a.dtype != object:
            a[...] = 7
        if not np.array_equal(M(t), raw):
            bad("result-aliased", "overwriting the array of `%s` in place changed f itself" % label)
            break
    return out


def check_pair(params):
    from discopy.tensor import Tensor, Dim
    a, b, c, d = (tuple(params[k]) for k in ("a", "b", "c", "d"))
    seed = params.get("seed", 0)
    out = []

    def bad(kind, msg):
        out.append((_sig(kind, params), "f: %s -> %s, g: %s -> %s: %s" % (a, b, c, d, msg)))
    kind = params.get("kind", "gauss")
    f, g = T(a, b, "f", seed, kind), T(c, d, "g", seed, kind)
    Mf, Mg = M(f), M(g)
    fg = f @ g
    if dimsof(fg.dom) != a + c or dimsof(fg.cod) != b + d or not np.array_equal(M(fg), np.kron(Mf, Mg)):
        bad("tensor", "f @ g is not the Kronecker product")
    if b == c:
        h = f >> g
        if dimsof(h.dom) != a or dimsof(h.cod) != d or not np.array_equal(M(h), Mf @ Mg):
            bad("then", "f >> g is not the matrix product")
        params["_composable"] = True
    # swaps
    s = Tensor.swap(Dim(*a), Dim(*c))
    dest = [i + len(c) for i in range(len(a))] + list(range(len(c)))
    if dimsof(s.dom) != a + c or dimsof(s.cod) != c + a or \
            not np.array_equal(M(s), perm_matrix(list(a + c), dest)):
        bad("swap", "swap(%s, %s) is not the block permutation matrix" % (a, c))
    # naturality of the swap:  f @ g >> swap(b, d) == swap(a, c) >> g @ f
    lhs = fg >> Tensor.swap(Dim(*b), Dim(*d))
    rhs = Tensor.swap(Dim(*a), Dim(*c)) >> (g @ f)
    if not np.array_equal(M(lhs), M(rhs)) or dimsof(lhs.cod) != dimsof(rhs.cod):
        bad("swap-natural", "f @ g >> swap != swap >> g @ f")
    # interchange law with a second layer (h: b -> a, k: d -> c)
    h, k = T(b, a, "h", seed, kind), T(d, c, "k", seed, kind)
    if not np.array_equal(M((f @ g) >> (h @ k)), M((f >> h) @ (g >> k))):
        bad("interchange", "(f @ g) >> (h @ k) != (f >> h) @ (g >> k)")
    # several operands at once
    Mh = M(h)
    t3 = f.then(h, f)
    if dimsof(t3.dom) != a or dimsof(t3.cod) != b or not np.array_equal(M(t3), Mf @ Mh @ Mf):
        bad("then-nary", "f.then(h, f) is not the product of the three matrices")
    k3 = f.tensor(g, h)
    if dimsof(k3.dom) != a + c + b or dimsof(k3.cod) != b + d + a or not np.array_equal(M(k3), np.kron(np.kron(Mf, Mg), Mh)):
        bad("tensor-nary", "f.tensor(g, h) is not the Kronecker product of the three matrices")
    if not np.array_equal(M(Tensor.id(Dim(*a)).then(f, h)), Mf @ Mh) or not np.array_equal(M(Tensor.id(Dim(1)).tensor(f, g)), np.kron(Mf, Mg)):
        bad("nary-on-identity", "Id.then(f, h) / Id().tensor(f, g) differ from f >> h / f @ g")
    return out


CASES = {k: safe("C08", f) for k, f in {"single": check_single, "pair": check_pair}.items()}


def _worker(shard):
    part = Part()
    for case, params in shard:
        res = CASES[case](params)
        part.count("transitions")
        part.count("states")
        if params.pop("_composable", False):
            part.count("compositions")
        dims = [tuple(params[k]) for k in ("dom", "cod", "a", "b", "c", "d") if k in params]
        if len({len(x) for x in dims}) > 1 or any(len(set(x)) > 1 for x in dims):
            part.seen("nontrivial", repr(sorted(params.items())))
        for sig, msg in res:
            part.violation(sig, msg, case, params)
        if case == "pair" and len(part.samples) < 1 and len(params["a"]) == 2:
            part.sample(params)
    return part


def run(ctx):
    single_len = 3
    pair_len = 2 if ctx.quick else 3
    ctx.bounds.update(dims=[2, 3], single_max_len=single_len, pair_max_len=pair_len)
    ctx.rule = ("all (dom, cod) pairs over {2,3}^<=%d for unary laws (data, dagger, id, unit, Dim(1) "
                "dropping, cups/caps, both snake equations); all 4-tuples of types of length <= %d for "
                "kron, matrix product, swap matrix, swap naturality, interchange law. nontrivial = "
                "cases with unequal dims or unequal arities" % (single_len, pair_len))
    ctx.assumptions = ["numpy matmul/kron/conj/reshape trusted; comparisons exact (Gaussian ints)"]
    menu3, menup = dims_menu(single_len), dims_menu(pair_len)
    items = [("single", dict(dom=list(a), cod=list(b), seed=ctx.seed)) for a in menu3 for b in menu3
             if ref.prod(a) * ref.prod(b) <= 27 * 27]
    # how the entries are stored (integer / object / symbolic arrays): all shapes up to length 2
    for kind in KINDS[1:]:
        menu2 = dims_menu(2)
        items += [("single", dict(dom=list(a), cod=list(b), seed=ctx.seed, kind=kind)) for a in menu2 for b in menu2]
        for a, b, c, d in itertools.product(dims_menu(1), repeat=4):
            items.append(("pair", dict(a=list(a), b=list(b), c=list(c), d=list(d), seed=ctx.seed, kind=kind)))
    ctx.bounds["entry_kinds"] = list(KINDS)
    for a, b, c, d in itertools.product(menup, repeat=4):
        if ref.prod(a + c) * ref.prod(b + d) > 81 * 81:
            continue
        if not ctx.quick or (len(a) + len(b) + len(c) + len(d) <= 6):
            items.append(("pair", dict(a=list(a), b=list(b), c=list(c), d=list(d), seed=ctx.seed)))
    for p in pmap(_worker, build.shards(items, 96)):
        ctx.merge(p)
    ctx.counters["traces_validated_against_impl"] = ctx.counters.get("transitions", 0)
