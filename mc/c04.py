"""C04 -- functors are functorial (cat, monoidal, rigid functors).

Space: *functors are enumerated, not sampled*: every object map from the source atoms to a menu
of image types (empty, one wire, adjoint wire, two wires, two adjoint wires), two kinds of arrow
map (single box / two-box composite), each supplied as dict and as callable; applied to every
diagram of the bounded source universe (boxes with asymmetric arities, daggers, scalars, cups and
caps of every orientation, swaps).
Oracle: reference image of types (adjoints computed over plain tuples), reference nested
cups/caps, label tracer for swap images, and the functor laws as == between returned values.
"""
import itertools

from mc import ref, build
from mc.core import Part, pmap, digest, safe
from mc.build import parse_atom, atom_str
from mc import c02

IMAGES = {"rigid": [(), ("p",), ("q.l",), ("p", "q"), ("q.r", "p.l")],
          "monoidal": [(), ("p",), ("q",), ("p", "q")],
          "cat": ["p", "q"]}
ATOMS = {"rigid": ("a", "b"), "monoidal": ("a", "b"), "cat": ("x", "y", "z")}


def _sig(kind, params):
    return "C04:%s:%s" % (kind, digest(params))


def source_sig(cls):
    if cls == "monoidal":
        return ([("box", "f", ("a",), ("b", "a")), ("box", "g", ("b", "a"), ()), ("box", "h", (), ("a",)),
                 ("box", "s", (), ()), ("box", "fd", ("b", "a"), ("a",), True),
                 ("box", "k", ("a",), ("a",)), ("swap", "a", "b"), ("swap", "b", "a"), ("swap", "a", "a")],
                [(), ("a",), ("b",), ("a", "b"), ("b", "a")])
    sig = [("box", "f", ("a",), ("b", "a")), ("box", "g", ("b", "a"), ()), ("box", "h", (), ("a.r",)),
           ("box", "s", (), ()), ("box", "fd", ("b", "a"), ("a",), True), ("box", "hd", ("a.r",), (), True),
           ("swap", "a", "b"), ("swap", "b", "b.l"), ("swap", "a.r", "a")]
    for x in ("a", "b"):
        for (l, r) in ((x, x + ".r"), (x + ".l", x), (x + ".r", x), (x, x + ".l")):
            sig.append(("cup", l, r))
            sig.append(("cap", l, r))
    return sig, [(), ("a",), ("b",), ("a", "b"), ("b", "a.r"), ("a.l",)]


def ref_ty_image(atoms, obmap):
    """Image of a type: per atom, the image of its base type with .l/.r applied |z| times
    (reverse the list and shift every winding number)."""
    out = []
    for a in atoms:
        name, z = parse_atom(a)
        img = list(obmap[name])
        for _ in range(abs(z)):
            img = [atom_str(parse_atom(x)[0], parse_atom(x)[1] + (1 if z > 0 else -1))
                   for x in reversed(img)]
        out += img
    return tuple(out)


def make_functor(params):
    """Build the functor described by params and return (F, image_of_box, obmap)."""
    cls = params["cls"]
    if cls == "cat":
        from discopy import cat
        obmap = dict(zip(ATOMS["cat"], params["ob"]))
        table = {}

        def image(name, dom, cod):
            key = (name, dom, cod)
            if key not in table:
                D, C = cat.Ob(obmap[dom]), cat.Ob(obmap[cod])
                if params["ar_mode"] == 1:
                    table[key] = cat.Box("F" + name, D, C)
                else:
                    table[key] = cat.Box("F" + name + "1", D, cat.Ob("mid")) >> \
                        cat.Box("F" + name + "2", cat.Ob("mid"), C)
            return table[key]
        ob = {cat.Ob(k): cat.Ob(v) for k, v in obmap.items()}
        boxes = {n: (d, c) for n, (d, c, _) in c02.CAT_BOXES.items() if not isinstance(_, str)}
        ar = {cat.Box(n, cat.Ob(d), cat.Ob(c), data=c02.CAT_BOXES[n][2]): image(n, d, c)
              for n, (d, c) in boxes.items()}
        if params["supply"] == "callable":
            ob_d, ar_d = dict(ob), dict(ar)
            F = cat.Functor(lambda o: ob_d[o], lambda b: ar_d[b])
        else:
            F = cat.Functor(ob, ar)
        return F, ar, obmap
    k = build.kit(cls)
    m = k.m
    obmap = dict(zip(ATOMS[cls], [tuple(x) for x in params["ob"]]))
    sig, _ = source_sig(cls)
    ar = {}
    for spec in sig:
        if spec[0] != "box":
            continue
        name = spec[1]   # a daggered spec ('fd', dom, cod, True) is the dagger of Box('fd', cod, dom)
        dom, cod = (spec[3], spec[2]) if len(spec) > 4 and spec[4] else (spec[2], spec[3])
        src = k.Box(name, k.ty(dom), k.ty(cod))
        D, C = k.ty(ref_ty_image(dom, obmap)), k.ty(ref_ty_image(cod, obmap))
        if params["ar_mode"] == 1:
            ar[src] = k.Box("F" + name, D, C)
        else:
            mid = k.ty(["p"])
            ar[src] = k.Box("F" + name + "1", D, mid) >> k.Box("F" + name + "2", mid, C)
    ob = {k.ty([a]): k.ty(img) for a, img in obmap.items()}
    if params["supply"] == "callable":
        ob_l = list(ob.items())
        ar_l = list(ar.items())

        def ob_f(t):
            for key, v in ob_l:
                if key == t:
                    return v
            raise KeyError(t)

        def ar_f(b):
            for key, v in ar_l:
                if key == b:
                    return v
            raise KeyError(b)
        F = m.Functor(ob_f, ar_f)
    elif params["supply"] == "total":
        # callables that compute the image from the attributes of whatever they are handed
        # (never raise KeyError), like the lambdas users write
        def ob_t(t):
            return k.ty(obmap[t.objects[0].name])

        def ar_t(b):
            D, C = k.ty(ref_ty_image(_atoms(b.dom), obmap)), k.ty(ref_ty_image(_atoms(b.cod), obmap))
            if params["ar_mode"] == 1:
                return k.Box("F" + str(b.name), D, C)
            mid = k.ty(["p"])
            return k.Box("F" + str(b.name) + "1", D, mid) >> k.Box("F" + str(b.name) + "2", mid, C)
        F = m.Functor(ob_t, ar_t)
    else:
        F = m.Functor(ob, ar)
    return F, ar, obmap


def ref_cups(k, L, R, cap=False):
    """Reference nested cups (caps) between the image types, as explicit boxes and offsets."""
    n = len(L)
    if cap:
        boxes = [k.Cap(k.ty([L[i]]), k.ty([R[n - 1 - i]])) for i in range(n)]
        offs = list(range(n))
        return k.Diagram(k.ty([]), k.ty(tuple(L) + tuple(R)), boxes, offs)
    boxes = [k.Cup(k.ty([L[n - 1 - i]]), k.ty([R[i]])) for i in range(n)]
    offs = [n - 1 - i for i in range(n)]
    return k.Diagram(k.ty(tuple(L) + tuple(R)), k.ty([]), boxes, offs)


def check_apply(params):
    cls = params["cls"]
    if cls == "cat":
        return check_cat(params)
    from discopy import monoidal
    F, ar, obmap = make_functor(params)
    k = build.kit(cls)
    recipe = c02._norm(params["recipe"])
    d = build.build(recipe)
    out = []

    def bad(kind, msg):
        out.append((_sig(kind, params), "[%s functor ob=%s ar_mode=%s %s] on %s: %s"
                    % (cls, obmap, params["ar_mode"], params["supply"], d, msg)))
    ar_before = dict(ar)
    try:
        Fd = F(d)
    except Exception as e:  # noqa
        bad("raises", "F(d) raised %r" % (e,))
        return out
    if params["supply"] == "dict" and (dict(F.ar) != ar_before or len(F.ob) != len(obmap)):
        bad("mapping-mutated", "applying the functor changed the mappings it was built from")
    snap = ref.snapshot(d)
    try:
        again = F(d)
    except Exception as e:  # noqa
        again = e
    if isinstance(again, Exception) or ref.snapshot(again) != ref.snapshot(Fd):
        bad("second-application", "applying the same functor to the same diagram a second time gives %s, the first time %s" % (again, Fd))
    if ref.snapshot(d) != snap:
        bad("operand-mutated", "applying the functor changed the diagram it was applied to")
    want_dom = build.atoms_key(ref_ty_image(recipe[1], obmap))
    cod_atoms = tuple(_atoms(d.cod))
    want_cod = build.atoms_key(ref_ty_image(cod_atoms, obmap))
    if ref.ty_key(Fd.dom) != want_dom or ref.ty_key(Fd.cod) != want_cod:
        bad("domcod", "F(d) : %s -> %s, expected %s -> %s" % (Fd.dom, Fd.cod, want_dom, want_cod))
        return out
    if ref.ty_key(F(d.dom)) != want_dom or ref.ty_key(F(d.cod)) != want_cod:
        bad("ob-image", "F(dom)=%s F(cod)=%s, expected %s, %s" % (F(d.dom), F(d.cod), want_dom, want_cod))
    errs = ref.scan(Fd)
    if errs:
        bad("illtyped", "F(d) ill-typed: %s" % errs[:2])
        return out
    n = len(d)
    for i in range(n + 1):
        lhs = F(d[:i]) >> F(d[i:])
        if not (lhs == Fd):
            bad("composite", "F(d[:%d]) >> F(d[%d:]) != F(d)" % (i, i))
            break
    if not (F(k.Id(d.dom)) == k.Id(k.ty(ref_ty_image(recipe[1], obmap)))):
        bad("identity", "F(Id(dom)) != Id(F(dom))")
    # every layer: whiskering + reference image of the box
    cur = list(recipe[1])
    for (spec, off) in recipe[2]:
        bd, bc = build.spec_io(spec)
        left, right = cur[:off], cur[off + len(bd):]
        b = k.box(spec)
        Fb = F(b)
        Fl = k.Id(k.ty(ref_ty_image(left, obmap)))
        Fr = k.Id(k.ty(ref_ty_image(right, obmap)))
        lay = F(k.Id(k.ty(left)) @ b @ k.Id(k.ty(right)))
        if not (lay == Fl @ Fb @ Fr):
            bad("whisker", "F(Id(%s) @ %s @ Id(%s)) != Id(F l) @ F(box) @ Id(F r)" % (left, b, right))
            break
        L = ref_ty_image(bd[:1], obmap) if spec[0] in ("cup", "swap") else None
        if spec[0] == "box":
            key = [s for s in ar if s.name == spec[1]][0]
            want = ar[key].dagger() if len(spec) > 4 and spec[4] else ar[key]
            if not (Fb == want):
                bad("box-image", "F(%s) = %s, expected %s" % (b, Fb, want))
                break
        elif spec[0] == "cup":
            want = ref_cups(k, ref_ty_image(bd[:1], obmap), ref_ty_image(bd[1:], obmap))
            if not (Fb == want):
                bad("cup-image", "F(%s) = %s, expected nested cups %s" % (b, Fb, want))
                break
        elif spec[0] == "cap":
            want = ref_cups(k, ref_ty_image(bc[:1], obmap), ref_ty_image(bc[1:], obmap), cap=True)
            if not (Fb == want):
                bad("cap-image", "F(%s) = %s, expected nested caps %s" % (b, Fb, want))
                break
        elif spec[0] == "swap":
            nl, nr = len(ref_ty_image(bd[:1], obmap)), len(ref_ty_image(bd[1:], obmap))
            from mc.c10 import trace
            labels, err = trace(Fb, nl + nr, monoidal.Swap)
            if err or labels != list(range(nl, nl + nr)) + list(range(nl)):
                bad("swap-image", "F(%s) = %s is not the block swap (%s)" % (b, Fb, err or labels))
                break
        cur = left + list(bc) + right
    # dagger
    try:
        lhs, rhs = F(d[::-1]), Fd[::-1]
        if not (lhs == rhs):
            multi = any(s[0] == "swap" and min(len(ref_ty_image((s[1],), obmap)),
                                               len(ref_ty_image((s[2],), obmap))) >= 2
                        for s, _ in recipe[2])
            others_ok = multi and dagger_ok_without_swaps(F, d, monoidal)
            if others_ok:
                out.append(("C04:dagger:swap-with-multiwire-image",
                            "[%s functor ob=%s] F(d[::-1]) != F(d)[::-1] for %s: the image of the "
                            "dagger of a swap between multi-wire images is only equal up to "
                            "interchange" % (cls, obmap, d)))
            else:
                bad("dagger", "F(d[::-1]) = %s but F(d)[::-1] = %s" % (lhs, rhs))
    except Exception as e:  # noqa
        bad("dagger-raises", "%r" % (e,))
    return out


def dagger_ok_without_swaps(F, d, monoidal):
    """Does the dagger law hold layer by layer for every layer that is not a swap?"""
    for i in range(len(d)):
        lay = d[i:i + 1]
        if isinstance(lay.boxes[0], monoidal.Swap):
            continue
        if not (F(lay[::-1]) == F(lay)[::-1]):
            return False
    return True


def _atoms(t):
    return [atom_str(o.name, getattr(o, "z", 0)) for o in t.objects]


def check_cat(params):
    from discopy import cat
    F, ar, obmap = make_functor(params)
    a = c02.cat_build(c02._norm(params["recipe"]))
    out = []

    def bad(kind, msg):
        out.append((_sig(kind, params), "[cat functor ob=%s ar_mode=%s %s] on %s: %s"
                    % (obmap, params["ar_mode"], params["supply"], a, msg)))
    Fa = F(a)
    if Fa.dom != cat.Ob(obmap[a.dom.name]) or Fa.cod != cat.Ob(obmap[a.cod.name]):
        bad("domcod", "F(a) : %s -> %s" % (Fa.dom, Fa.cod))
    scan, okc = Fa.dom, True
    for b in Fa.boxes:
        if b.dom != scan:
            okc = False
        scan = b.cod
    if not okc or scan != Fa.cod:
        bad("illtyped", "boxes of F(a) do not compose from dom to cod")
    for i in range(len(a) + 1):
        if not (F(a[:i]) >> F(a[i:]) == Fa):
            bad("composite", "F(a[:%d]) >> F(a[%d:]) != F(a)" % (i, i))
            break
    if not (F(cat.Id(a.dom)) == cat.Id(F(a.dom))):
        bad("identity", "F(Id) != Id(F)")
    if not (F(a[::-1]) == Fa[::-1]):
        bad("dagger", "F(a[::-1]) = %s but F(a)[::-1] = %s" % (F(a[::-1]), Fa[::-1]))
    S = a + a[:0] >> a if False else a + a
    FS = F(S)
    if not isinstance(FS, cat.Sum) or not (FS == F(a) + F(a)):
        bad("sum", "F(a + a) = %r" % (FS,))
    Z = cat.Sum([], a.dom, a.cod)
    FZ = F(Z)
    if not isinstance(FZ, cat.Sum) or FZ.terms or FZ.dom != Fa.dom or FZ.cod != Fa.cod:
        bad("empty-sum", "F(0) = %r" % (FZ,))
    return out


def check_pairs(params):
    """Tensor and sum preservation on pairs of diagrams, and adjoints of types."""
    cls = params["cls"]
    F, ar, obmap = make_functor(params)
    k = build.kit(cls)
    d, e = build.build(c02._norm(params["r1"])), build.build(c02._norm(params["r2"]))
    out = []

    def bad(kind, msg):
        out.append((_sig(kind, params), "[%s functor ob=%s ar_mode=%s %s] d=%s e=%s: %s"
                    % (cls, obmap, params["ar_mode"], params["supply"], d, e, msg)))
    if not (F(d @ e) == F(d) @ F(e)):
        bad("tensor", "F(d @ e) != F(d) @ F(e)")
    if ref.ty_key(d.dom) == ref.ty_key(e.dom) and ref.ty_key(d.cod) == ref.ty_key(e.cod):
        FS = F(d + e)
        from discopy import cat
        if not isinstance(FS, cat.Sum) or not c02.same(FS, F(d) + F(e)):
            bad("sum", "F(d + e) = %r" % (FS,))
        Z = d.sum([], d.dom, d.cod)
        FZ = F(Z)
        if not isinstance(FZ, cat.Sum) or FZ.terms or ref.ty_key(FZ.dom) != ref.ty_key(F(d.dom)) \
                or ref.ty_key(FZ.cod) != ref.ty_key(F(d.cod)):
            bad("empty-sum", "F(0) = %r" % (FZ,))
        params["_parallel"] = True
    return out


def check_types(params):
    cls = params["cls"]
    F, ar, obmap = make_functor(params)
    k = build.kit(cls)
    out = []
    base = list(ATOMS[cls])
    atoms = base if cls == "monoidal" else [atom_str(a, z) for a in base for z in (-2, -1, 0, 1, 2)]
    for n in range(0, 3):
        for t in itertools.product(atoms, repeat=n):
            T = k.ty(t)
            want = build.atoms_key(ref_ty_image(t, obmap))
            got = F(T)
            if ref.ty_key(got) != want:
                out.append((_sig("type-image", [params, t]), "[%s ob=%s] F(%s) = %s, expected %s"
                            % (cls, obmap, T, got, want)))
            if cls == "rigid":
                if ref.ty_key(F(T.l)) != ref.ty_key(got.l) or ref.ty_key(F(T.r)) != ref.ty_key(got.r):
                    out.append((_sig("adjoint", [params, t]), "[%s ob=%s] F(%s.l)=%s vs F(t).l=%s; "
                                "F(t.r)=%s vs F(t).r=%s" % (cls, obmap, T, F(T.l), got.l, F(T.r), got.r)))
    params["_n"] = sum(len(atoms) ** n for n in range(3))
    return out


def check_sumimage(params):
    """Functors whose arrow map sends boxes to *formal sums* (two terms each): images of
    composites, tensors and daggers are the composites, tensors and daggers of the images, as
    sums with their terms in the order composition and tensor of sums define."""
    cls = params["cls"]
    k = build.kit(cls)
    obmap = dict(zip(ATOMS[cls], [tuple(x) for x in params["ob"]]))

    def ar_t(b):
        D, C = k.ty(ref_ty_image(_atoms(b.dom), obmap)), k.ty(ref_ty_image(_atoms(b.cod), obmap))
        return k.Box("F" + str(b.name) + "a", D, C) + k.Box("F" + str(b.name) + "b", D, C)
    F = k.m.Functor(lambda t: k.ty(obmap[t.objects[0].name]), ar_t)
    d, e = build.build(c02._norm(params["r1"])), build.build(c02._norm(params["r2"]))
    out = []

    def bad(kind, msg):
        out.append((_sig(kind, params), "[%s functor ob=%s, boxes sent to two-term sums] d=%s e=%s: %s" % (cls, obmap, d, e, msg)))
    Fd, Fe = F(d), F(e)
    from discopy import cat
    for v, src in ((Fd, d), (Fe, e)):
        if ref.ty_key(v.dom) != build.atoms_key(ref_ty_image(_atoms(src.dom), obmap)) \
                or ref.ty_key(v.cod) != build.atoms_key(ref_ty_image(_atoms(src.cod), obmap)):
            bad("sum-domcod", "F(%s) : %s -> %s" % (src, v.dom, v.cod))
            return out
    if len(d) == 1 and (not isinstance(Fd, cat.Sum) or len(Fd.terms) != 2):
        bad("sum-shape", "F(d) = %r is not the two-term sum the arrow map returned" % (Fd,))
        return out
    if not c02.same(F(d @ e), Fd @ Fe):
        bad("sum-tensor", "F(d @ e) = %s but F(d) @ F(e) = %s" % (F(d @ e), Fd @ Fe))
    if ref.ty_key(d.cod) == ref.ty_key(e.dom) and not c02.same(F(d >> e), Fd >> Fe):
        bad("sum-then", "F(d >> e) = %s but F(d) >> F(e) = %s" % (F(d >> e), Fd >> Fe))
    try:
        if not c02.same(F(d[::-1]), Fd[::-1]):
            bad("sum-dagger", "F(d[::-1]) = %s but F(d)[::-1] = %s" % (F(d[::-1]), Fd[::-1]))
    except Exception as ex:  # noqa
        bad("sum-dagger-raises", "%r" % (ex,))
    return out


def check_zoo(params):
    """A functor given by total callables (every atom to two wires, every box to one box between
    the image types) applied to every value of the box zoo of the free classes -- generic boxes,
    swaps, cups, caps, grammar words with and without domains, composite subclasses."""
    from mc import zoo
    cls, expr = params["cls"], params["expr"]
    v = zoo.value(cls, expr)
    k = build.kit("monoidal" if cls == "monoidal" else "rigid")
    obmap = {}

    def img(name):
        return obmap.setdefault(name, (str(name) + "1", str(name) + "2"))
    F = k.m.Functor(lambda t: k.ty(img(t.objects[0].name)),
                    lambda b: k.Box("F(%s)" % (b.name,), F(b.dom), F(b.cod)))
    out = []

    def bad(kind, msg):
        out.append((_sig(kind, params), "[%s] %s under the doubling functor: %s" % (cls, expr, msg)))

    def want(t):
        for o in t.objects:
            img(o.name)
        return build.atoms_key(ref_ty_image(_atoms(t), obmap))
    Fv = F(v)
    if ref.ty_key(Fv.dom) != want(v.dom) or ref.ty_key(Fv.cod) != want(v.cod):
        bad("zoo-domcod", "F(v) : %s -> %s, the images of dom and cod are %s -> %s" % (Fv.dom, Fv.cod, want(v.dom), want(v.cod)))
        return out
    if ref.ty_key(F(v.dom)) != want(v.dom) or ref.ty_key(F(v.cod)) != want(v.cod):
        bad("zoo-type-image", "F(dom), F(cod) = %s, %s" % (F(v.dom), F(v.cod)))
    errs = ref.scan(Fv)
    if errs:
        bad("zoo-illtyped", "F(v) ill-typed: %s" % errs[:2])
        return out
    try:
        vd = v[::-1]
    except TypeError:
        return out
    Fvd = F(vd)
    if ref.ty_key(Fvd.dom) != want(v.cod) or ref.ty_key(Fvd.cod) != want(v.dom):
        bad("zoo-dagger-domcod", "F(v[::-1]) : %s -> %s, expected %s -> %s" % (Fvd.dom, Fvd.cod, want(v.cod), want(v.dom)))
        return out
    if not (F(v >> vd) == Fv >> Fvd) or not (F(v @ vd) == Fv @ Fvd):
        bad("zoo-composite", "F(v >> v[::-1]) or F(v @ v[::-1]) is not the composite / tensor of the images")
    return out


CASES = {k: safe("C04", f) for k, f in {"apply": check_apply, "pairs": check_pairs, "zoo": check_zoo,
                                        "types": check_types, "sumimage": check_sumimage}.items()}


def functors(cls, quick):
    menu = IMAGES[cls]
    n = len(ATOMS[cls])
    for ob in itertools.product(menu, repeat=n):
        if cls == "cat":
            combos = [(1, "dict"), (1, "callable"), (2, "dict"), (2, "callable")]
        elif quick:  # every object map, each arrow-map kind and each way of supplying it once
            combos = [(1, "dict"), (1, "total"), (2, "callable")]
        else:
            combos = [(a, s) for a in (1, 2) for s in ("dict", "callable", "total")]
        for ar_mode, supply in combos:
            yield dict(cls=cls, ob=[list(x) if not isinstance(x, str) else x for x in ob],
                       ar_mode=ar_mode, supply=supply)


def _worker(shard):
    part = Part()
    for case, params in shard:
        res = CASES[case](params)
        part.count("transitions")
        if case == "apply":
            part.seen("nontrivial", repr(sorted((k, repr(v)) for k, v in params.items())))
        if params.pop("_parallel", False):
            part.count("parallel_pairs")
        n = params.pop("_n", 0)
        if n:
            part.count("type_images_checked", n)
        for sig, msg in res:
            part.violation(sig, msg, case, params)
        if case == "apply" and len(part.samples) < 1 and len(params["recipe"][2]) == 2:
            part.sample(params)
    return part


def run(ctx):
    depth = 2 if ctx.quick else 3
    ctx.rule = ("every functor of the enumerated family (object maps x arrow-map kinds x dict/"
                "callable supply; cat, monoidal, rigid) applied to every source diagram of depth <= "
                "%d: dom/cod, scan, every split, identity, every layer against reference images "
                "(table, nested cups/caps, block swaps), dagger; tensor/sum on pool pairs; images of "
                "all types of length <= 2 with adjoints. nontrivial = distinct (functor, diagram)" % depth)
    ctx.assumptions = ["reference adjoint / nested cups computed in mc/c04.py",
                       "== on returned diagrams is trusted here (it is C03's subject)"]
    items = []
    from mc import zoo
    for cls in ("monoidal", "rigid", "pregroup"):
        for e in zoo.entries(cls):
            if "ubble" in e or "foliation" in e or "[Box(" in e or "PRO(" in e:
                continue      # bubbles have no functorial image here; boxes that are diagrams are not boxes
            items.append(("zoo", dict(cls=cls, expr=e)))
    for cls in ("cat", "monoidal", "rigid"):
        fs = list(functors(cls, ctx.quick))
        if cls == "cat":
            src = c02.cat_recipes(2 if ctx.quick else 3)
        else:
            sig, doms = source_sig(cls)
            src = list(build.universe(cls, sig, doms, depth, 3))
            if ctx.quick and cls == "rigid":
                src = [r for r in src if len(r[2]) <= 1] + [r for r in src if len(r[2]) == 2][::3]
                ctx.cap_hit("rigid source diagrams of depth 2 every 3rd (depth <= 1 complete)")
        ctx.count("states", len(src))
        ctx.note("sizes", "%s: %d functors x %d diagrams" % (cls, len(fs), len(src)))
        n_sum = 0
        for f in fs:
            for r in src:
                items.append(("apply", dict(f, recipe=r)))
            if cls != "cat" and f["ar_mode"] == 1 and f["supply"] in ("dict",):
                n_sum += 1
                if ctx.quick and n_sum % 4 != 1:
                    continue        # sum-valued arrow maps for every 4th object map in the quick tier
                Q = [r for r in src if len(r[2]) == 1 and r[2][0][0][0] == "box"]
                for r1 in Q:
                    for r2 in Q:
                        items.append(("sumimage", dict(cls=cls, ob=f["ob"], r1=r1, r2=r2)))
            if cls != "cat":
                items.append(("types", dict(f)))
                P = [r for r in src if len(r[2]) <= 1][:: (3 if ctx.quick else 1)][:14]
                for r1 in P:
                    for r2 in P:
                        items.append(("pairs", dict(f, r1=r1, r2=r2)))
    ctx.bounds.update(images=IMAGES, source_depth=depth, width=3)
    for p in pmap(_worker, build.shards(items, 128)):
        ctx.merge(p)
    ctx.counters["traces_validated_against_impl"] = ctx.counters.get("transitions", 0)
