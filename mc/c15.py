"""C15 -- diagrammatic gradients evaluate to the gradient of the evaluation.

Space: every circuit up to the bound over rotations / controlled rotations / scalars whose
parameters are affine and non-linear expressions of two real symbols (each symbol occurring up
to three times), composed with fixed gates; tensor diagrams with symbolic boxes and polynomial
bubbles; both symbols; pure gradients (amplitudes) and the default parameter-shift gradients
(classical-quantum map); a grid of parameter values.
Oracle: sympy.diff of the symbolic evaluation, cross-checked by a central finite difference of
the numeric evaluation (so a sympy quirk cannot raise a false alarm).
"""
import itertools

import numpy as np

from mc import ref, build, qref
from mc.core import Part, pmap, digest, safe
from mc import c14

POINTS = [(0.17, -0.6), (-0.45, 0.3), (1.3, 0.8), (0.05, 1.1), (-1.2, -0.25)]


def _sig(kind, params):
    return "C15:%s:%s" % (kind, digest(params))


def alphabet(cls, quick):
    if cls == "circuit":
        par = ["Rx(x)", "Ry(x)", "Rz(x)", "Rz(2 * x + y)", "Rx(x / 2)", "Ry(-x)", "Rz(x * y)", "Rx(x ** 2)",
               "Rz(x + 0.5)", "Ry(y)", "CRz(x)", "CRx(x + y)", "CU1(x)", "CRz(x / 2)", "CU1(x * y)",
               "scalar(x)", "scalar(x + 1j * y)", "scalar(x ** 2, is_mixed=True)", "sqrt(x ** 2 + 1)",
               "Rz(x).dagger()", "CRz(x + y).dagger()",
               "ClassicalGate('g', 1, 2, [x, y, 0, 1, 1, 0, x * y, 2])", "ClassicalGate('m', 1, 1, [x, 2 * x, y, 1])",
               "ClassicalGate('g', 1, 2, [x, y, 0, 1, 1, 0, x * y, 2]).dagger()",
               "ClassicalGate('m', 1, 1, [x, 2 * x, y, 1]).dagger()"]
        fixed = ["H", "X", "CX", "Ket(0)", "Ket(1, 0)", "Bra(0)", "S", "Rz(0.3)", "Rz(0.3004)", "Bits(1)", "Copy()"]
        return par, fixed
    par = ["Box('a', Dim(2), Dim(2), [x, y, 1, x * y])", "Box('c', Dim(1), Dim(2), [x ** 2, 1j * y])",
           "Box('b', Dim(2), Dim(3), [x, 0, 1, y, x + y, 2])", "Box('s', Dim(1), Dim(1), [x + 1j * y])",
           "Box('a', Dim(2), Dim(2), [x, y, 1, x * y]).dagger()",
           "Box('p', Dim(2), Dim(2), [x, 1, y, 2]).bubble(func=poly)",
           "(Box('p', Dim(2), Dim(2), [x, 1, y, 2]) >> Box('q', Dim(2), Dim(2), [1, x, 0, y])).bubble(func=poly)"]
    fixed = ["Box('n', Dim(2), Dim(2), [1, 2j, 3, 4])", "Spider(1, 2, 2)", "Box('m', Dim(3), Dim(2), [1, 0, 2, 1, 0, 1])"]
    return par, fixed


def poly(v):
    return v * v + 2 * v


def namespace(cls):
    ns = c14.namespace(cls)
    ns["poly"] = poly
    return ns


def build_diagram(cls, layers):
    ns = namespace(cls)
    k = build.kit(cls)
    d = None
    for expr, off in layers:
        b = eval(expr, ns)
        if d is None:
            d = k.Diagram.id(b.dom) if off == 0 else None
            if d is None:
                raise ValueError("first layer must be at offset 0")
        left, right = d.cod[:off], d.cod[off + len(b.dom):]
        d = d >> k.Diagram.id(left) @ b @ k.Diagram.id(right)
    return d, ns


def ev(cls, d, mixed):
    if cls == "circuit":
        return np.asarray(d.eval(mixed=mixed).array, dtype=object)
    return np.asarray(d.eval().array, dtype=object)


def num(arr, env):
    return c14.numeric(arr, env)


def check_grad(params):
    import sympy
    cls, mixed = params["cls"], params["mixed"]
    d, ns = build_diagram(cls, params["layers"])
    x, y = ns["x"], ns["y"]
    var = ns[params["var"]]
    out = []

    def bad(kind, msg):
        out.append((_sig(kind, params), "[%s] %s .grad(%s%s): %s" % (
            cls, d, var, "" if cls == "tensor" else ", mixed=%s" % mixed, msg)))
    if cls == "circuit" and not mixed and d.is_mixed:
        params["_skipped"] = True
        return out
    try:
        if cls == "circuit" and params.get("default"):
            g = d.grad(var)       # the default call: parameter-shift gradient of the classical-quantum map
        else:
            g = d.grad(var, mixed=mixed) if cls == "circuit" else d.grad(var)
    except NotImplementedError:
        params["_refused"] = True
        return out
    except Exception as e:  # noqa
        bad("grad-raises", "raised %s: %s" % (type(e).__name__, str(e)[:140]))
        return out
    from discopy import cat
    if var not in d.free_symbols:
        if not isinstance(g, cat.Sum) or g.terms or ref.ty_key(g.dom) != ref.ty_key(d.dom) \
                or ref.ty_key(g.cod) != ref.ty_key(d.cod):
            bad("not-empty-sum", "the diagram does not depend on %s but grad = %r" % (var, g))
        return out
    if ref.ty_key(g.dom) != ref.ty_key(d.dom) or ref.ty_key(g.cod) != ref.ty_key(d.cod):
        bad("grad-types", "grad : %s -> %s" % (g.dom, g.cod))
        return out
    try:
        sym = ev(cls, d, mixed)
        if cls == "circuit":
            gv = g.eval(mixed=mixed)
        else:
            gv = g.eval()
        garr = np.asarray(getattr(gv, "array", gv), dtype=object)
    except NotImplementedError:
        params["_refused"] = True
        return out
    except Exception as e:  # noqa
        bad("eval-raises", "evaluating raised %s: %s" % (type(e).__name__, str(e)[:140]))
        return out
    dsym = np.array([sympy.diff(sympy.sympify(v), var) for v in sym.flatten()], dtype=object)
    if garr.size != dsym.size:
        bad("shape", "grad evaluates to %d entries, the evaluation has %d" % (garr.size, dsym.size))
        return out
    h = 1e-6
    for (vx, vy) in POINTS[:params.get("n_points", 5)]:
        env = {x: vx, y: vy}
        want = num(dsym, env)
        # finite-difference cross-check of the oracle itself
        ep, em = dict(env), dict(env)
        ep[var] += h
        em[var] -= h
        fd = (num(sym, ep) - num(sym, em)) / (2 * h)
        if not np.all(np.abs(fd - want) <= 1e-4 * (1 + np.abs(want))):
            raise AssertionError("oracle inconsistency: sympy.diff and finite differences disagree")
        got = num(garr, env)
        if not np.all(np.abs(got - want) <= 1e-8 * (1 + np.abs(want))):
            if cls == "circuit" and mixed and pure_scalar_depends(d, var):
                out.append(("C15:mixed-gradient:pure-scalar-depends-on-symbol",
                            "[circuit] %s .grad(%s) (default, parameter-shift): a pure scalar whose value depends "
                            "on the symbol is differentiated as an amplitude (s') although its mixed evaluation "
                            "is |s|**2" % (d, var)))
                return out
            bad("gradient", "at x=%s, y=%s grad(...).eval() = %s but d/d%s of the evaluation is %s"
                % (vx, vy, np.round(got, 5).tolist()[:6], var, np.round(want, 5).tolist()[:6]))
            return out
    return out


def check_sum_grad(params):
    """Gradients of formal sums and second derivatives (a gradient is itself a sum)."""
    import sympy
    cls, mixed = params["cls"], params["mixed"]
    d, ns = build_diagram(cls, params["layers"])
    x, y = ns["x"], ns["y"]
    v1, v2 = ns[params["vars"][0]], ns[params["vars"][1]]
    out = []
    if cls == "circuit" and not mixed and d.is_mixed:
        return out
    if cls == "circuit" and mixed and (pure_scalar_depends(d, v1) or pure_scalar_depends(d, v2)):
        return out      # recorded known finding, see check_grad
    kw = dict(mixed=mixed) if cls == "circuit" else {}
    try:
        sym = ev(cls, d, mixed)
        s2 = (d + d).grad(v1, **kw)
        if cls == "circuit":
            g2 = d.grad(v1, **kw).grad(v2, **kw)
            a2 = np.asarray(getattr(g2.eval(**kw), "array", g2.eval(**kw)), dtype=object)
        else:
            a2 = None
        b2 = np.asarray(getattr(s2.eval(**kw), "array", s2.eval(**kw)), dtype=object)
    except NotImplementedError:
        params["_refused"] = True
        return out
    except Exception as e:  # noqa
        out.append((_sig("sum-grad-raises", params), "[%s] %s: second derivative / gradient of a sum raised %s: %s"
                    % (cls, d, type(e).__name__, str(e)[:140])))
        return out
    want2 = np.array([sympy.diff(sympy.sympify(e), v1, v2) for e in sym.flatten()], dtype=object)
    want1 = np.array([2 * sympy.diff(sympy.sympify(e), v1) for e in sym.flatten()], dtype=object)
    for (vx, vy) in POINTS[:2]:
        env = {x: vx, y: vy}
        cases = [("(d + d).grad(%s)" % v1, b2, want1)]
        if cls == "circuit":   # tensor boxes differentiate through non-polynomial bubbles: no 2nd derivative
            cases.append(("d.grad(%s).grad(%s)" % (v1, v2), a2, want2))
        for label, got, want in cases:
            w = num(want, env)
            if got.size == 1 and np.all(w == 0) and num(got, env)[0] == 0:
                continue
            g = num(got, env)
            if g.shape != w.shape or not np.all(np.abs(g - w) <= 1e-7 * (1 + np.abs(w))):
                out.append((_sig("sum-gradient", params), "[%s] %s (mixed=%s): %s evaluates to %s (%d entries), expected %s "
                            "(%d entries)" % (cls, d, mixed, label, np.round(g, 4).tolist()[:4], g.size,
                                              np.round(w, 4).tolist()[:4], w.size)))
                return out
    return out


def pure_scalar_depends(d, var):
    from discopy.quantum import gates
    return any(isinstance(b, gates.Scalar) and not b.is_mixed and var in b.free_symbols for b in d.boxes)


def check_jacobian(params):
    import sympy
    cls = params["cls"]
    d, ns = build_diagram(cls, params["layers"])
    x, y = ns["x"], ns["y"]
    variables = [ns[v] for v in params["vars"]]
    out = []
    mixed = params.get("mixed", False)
    if cls == "circuit" and not mixed and d.is_mixed:
        return out
    try:
        arg = list(variables)
        j = d.jacobian(arg, mixed=mixed) if cls == "circuit" else d.jacobian(arg)
        if arg != variables:
            out.append((_sig("argument-mutated", params), "jacobian changed the list of variables it was given"))
        jv = j.eval(mixed=mixed) if cls == "circuit" else j.eval()
        jarr = np.asarray(getattr(jv, "array", jv), dtype=object)
        sym = ev(cls, d, mixed)
    except NotImplementedError:
        params["_refused"] = True
        return out
    except Exception as e:  # noqa
        out.append((_sig("jacobian-raises", params), "[%s] %s .jacobian(%s): %s: %s"
                    % (cls, d, variables, type(e).__name__, str(e)[:140])))
        return out
    n = len(variables)
    env = {x: POINTS[0][0], y: POINTS[0][1]}
    if n == 0:
        return out
    known = cls == "circuit" and mixed and any(pure_scalar_depends(d, v) for v in variables)
    stacked = []
    for v in variables:
        stacked.append(num(np.array([sympy.diff(sympy.sympify(e), v) for e in sym.flatten()], dtype=object), env))
    got = num(jarr, env)
    if got.size == 1 and got[0] == 0 and all(np.all(st == 0) for st in stacked):
        return out      # the empty sum evaluates to the number 0: nothing depends on the variables
    if n == 1:
        want = stacked[0]
    else:
        # the new (classical) wire of dimension n is the first codomain wire
        dom_size = int(np.prod([2] * 0 + [1]))
        want = None
    if n == 1 and (got.shape != want.shape or not np.all(np.abs(got - want) <= 1e-8 * (1 + np.abs(want)))):
        out.append(("C15:mixed-gradient:pure-scalar-depends-on-symbol" if known else _sig("jacobian", params),
                    "[%s] %s .jacobian([%s]) differs from grad" % (cls, d, variables[0])))
    if n > 1:
        # compare as a multiset of blocks in order: reshape got to (dom..., n, cod...)
        dom_n = int(np.prod([o.name if cls == "tensor" else 2 for o in d.dom.objects] or [1]))
        if mixed and cls == "circuit":
            dom_n = int(np.prod([2 if o.name == "bit" else 4 for o in d.dom.objects] or [1]))
        blocks = got.reshape(dom_n, n, -1)
        for i in range(n):
            w = stacked[i].reshape(dom_n, -1)
            if blocks[:, i, :].shape != w.shape or not np.all(np.abs(blocks[:, i, :] - w) <= 1e-8 * (1 + np.abs(w))):
                out.append(("C15:mixed-gradient:pure-scalar-depends-on-symbol" if known else _sig("jacobian", params),
                            "[%s] %s .jacobian(%s): block %d is not the gradient in %s"
                            % (cls, d, variables, i, variables[i])))
                break
    return out


CASES = {k: safe("C15", f) for k, f in {"grad": check_grad, "jacobian": check_jacobian,
                                        "sumgrad": check_sum_grad}.items()}


def _worker(shard):
    part = Part()
    for case, params in shard:
        res = CASES[case](params)
        part.count("transitions")
        part.count("states")
        if params.pop("_refused", False):
            part.count("refusals")
        elif params.pop("_skipped", False):
            part.count("skipped_mixed_circuit_for_pure_gradient")
        else:
            part.seen("nontrivial", repr(sorted((k, repr(v)) for k, v in params.items())))
        for s_, msg in res:
            part.violation(s_, msg, case, params)
        if case == "grad" and len(part.samples) < 1 and len(params["layers"]) == 2:
            part.sample(params)
    return part


def sequences(cls, quick):
    par, fixed = alphabet(cls, quick)
    ns = namespace(cls)
    objs = {e: eval(e, ns) for e in par + fixed}
    seqs = [[[e, 0]] for e in par]

    def extend(seq, cod):
        out = []
        for e in par + fixed:
            b = objs[e]
            for off in range(0, len(cod) - len(b.dom) + 1):
                if ref.ty_key(cod[off:off + len(b.dom)]) == ref.ty_key(b.dom):
                    new_cod = cod[:off] @ b.cod @ cod[off + len(b.dom):]
                    if len(new_cod) > 3:
                        continue      # width bound: symbolic classical-quantum maps on 4 wires take minutes each
                    out.append((seq + [[e, off]], new_cod))
        return out
    level = [([[e, 0]], objs[e].cod) for e in par + fixed]
    two = []
    for seq, cod in level:
        two += extend(seq, cod)
    two = [(s, c) for s, c in two if any(e in par for e, _ in s)]
    seqs += [s for s, _ in two]
    if not quick:
        three = []
        for seq, cod in two[::7]:
            three += extend(seq, cod)
        seqs += [s for s, _ in three][::9]
    return seqs


def run(ctx):
    items = []
    for cls in ("circuit", "tensor"):
        seqs = sequences(cls, ctx.quick)
        if ctx.quick:
            seqs = [s for s in seqs if len(s) == 1] + [s for s in seqs if len(s) == 2][::4]
            ctx.cap_hit("%s: two-box diagrams every 4th (all single boxes complete)" % cls)
        ctx.note("sizes", "%s: %d diagrams" % (cls, len(seqs)))
        for s in seqs:
            for var in ("x", "y"):
                for mixed in ((False, True) if cls == "circuit" else (False,)):
                    items.append(("grad", dict(cls=cls, layers=s, var=var, mixed=mixed,
                                               n_points=3 if ctx.quick else 5)))
                if cls == "circuit" and len(s) == 1:     # the call without the keyword, on every single box
                    items.append(("grad", dict(cls=cls, layers=s, var=var, mixed=True, default=True,
                                               n_points=3 if ctx.quick else 5)))
        for s in seqs[::4]:
            for vs in (["x", "x"], ["x", "y"]):
                for mixed in ((False, True) if cls == "circuit" else (False,)):
                    items.append(("sumgrad", dict(cls=cls, layers=s, vars=vs, mixed=mixed)))
        for s in seqs[::5]:
            for vs in (["x"], ["x", "y"], ["y", "x"]):
                # circuits: the extra Digit wire makes the jacobian a classical-quantum map
                items.append(("jacobian", dict(cls=cls, layers=s, vars=vs, mixed=(cls == "circuit"))))
    ctx.bounds.update(points=POINTS, depth=2 if ctx.quick else 3)
    ctx.rule = ("every diagram of the enumerated family x both symbols x pure/mixed: grad(...).eval() == "
                "d/dvar eval() on the point grid (sympy.diff cross-checked by finite differences); empty sum "
                "when the symbol does not occur; jacobian blocks in variable order. nontrivial = distinct "
                "non-refused cases")
    ctx.assumptions = ["real symbols; tolerance 1e-8 relative; NotImplementedError (mixed gradient of two-qubit "
                       "rotations, undifferentiable boxes) is a refusal",
                       "entries are trigonometric polynomials of the affine phases: agreement on the grid "
                       "implies agreement everywhere for degree <= 2; non-linear phases are checked on the grid only"]
    for p in pmap(_worker, build.shards(items, 128)):
        ctx.merge(p)
    ctx.counters["traces_validated_against_impl"] = ctx.counters.get("transitions", 0)
