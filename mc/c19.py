"""C19 -- cartesian diagrams compute the function they draw.

Space: every cartesian diagram up to the bound over boxes of every arity shape (0..2 -> 0..2)
whose Python functions return injective symbolic strings (so the result *is* the wiring term),
plus SWAP/COPY/DISCARD; Swap(l, r), Copy(n), Discard(n) for all widths up to 4; naturality
squares for every pair of boxes.
Oracle: a wire machine (list of values; apply box at offset; splice), compared under the
library's documented convention (bare value for a one-wire codomain, tuple otherwise).
"""
import itertools

from mc import ref, build
from mc.core import Part, pmap, digest, safe


def _sig(kind, params):
    return "C19:%s:%s" % (kind, digest(params))


SHAPES = [(i, j) for i in range(3) for j in range(3)]


def sig():
    s = [("e", "Box('f%d%d', %d, %d, sym('f%d%d', %d))" % (i, j, i, j, i, j, j)) for i, j in SHAPES]
    s += [("e", "SWAP"), ("e", "COPY"), ("e", "DISCARD")]
    s += [("e", "Box('none', 1, 1, lambda x: None)"), ("e", "Box('pair', 1, 2, lambda x: (None, x))")]
    # a single output handed back as a 1-tuple (legal: outputs are a tuple or a bare value)
    s += [("e", "Box('tup', 1, 1, lambda x: ('tup(%s)' % (x,),))"), ("e", "Box('tup0', 0, 1, lambda: ('tup0()',))")]
    return s


# values that travel on one wire (tuples excluded: the library's convention cannot tell a tuple
# value from several wires)
PAYLOADS = [[1, 2], [], {"k": 1}, 0, "", [None], "ab"]


def sym_apply(name, n_out, args):
    return tuple("%s%d(%s)" % (name, k, ",".join(map(str, args))) for k in range(n_out))


def machine(d, inputs, calls=None):
    """Feed the inputs through the boxes in order, each applied to the wires at its offset."""
    wires = list(inputs)
    for b, off in zip(d.boxes, d.offsets):
        n_in, n_out = len(b.dom), len(b.cod)
        args = wires[off:off + n_in]
        name = str(b.name)
        if name == "swap":
            outs = (args[1], args[0])
        elif name == "copy":
            outs = (args[0], args[0])
        elif name == "discard":
            outs = ()
        elif name == "add":
            outs = (args[0] + args[1],)
        elif name == "none":
            outs = (None,)
        elif name == "pair":
            outs = (None, args[0])
        elif name == "tup":
            outs = ("tup(%s)" % (args[0],),)
        elif name == "tup0":
            outs = ("tup0()",)
        else:
            outs = sym_apply(name, n_out, args)
            if calls is not None:
                calls.append((name, tuple(map(str, args))))
        wires[off:off + n_in] = list(outs)
    return tuple(wires)


def conv(t, n):
    """Library convention: bare value when the codomain has exactly one wire."""
    return t[0] if n == 1 else tuple(t)


def call(d, inputs):
    return d(*inputs)


def check_diagram(params):
    recipe = norm(params["recipe"])
    d = build.build(recipe)
    n_in, n_out = len(d.dom), len(d.cod)
    inputs = tuple("i%d" % k for k in range(n_in))
    if params.get("none_input") is not None and n_in:
        k0 = params["none_input"] % n_in
        inputs = inputs[:k0] + (None,) + inputs[k0 + 1:]      # None is a legitimate input value
    if params.get("payload") is not None and n_in:
        k0, pi = params["payload"]
        inputs = inputs[:k0 % n_in] + (PAYLOADS[pi],) + inputs[k0 % n_in + 1:]   # any Python value may travel on a wire
    out = []
    expected_calls = []
    want = conv(machine(d, inputs, expected_calls), n_out)
    del build.CALL_LOG[:]
    try:
        got = call(d, inputs)
    except Exception as e:  # noqa
        out.append((_sig("raises", params), "%s(%s) raised %r, expected %r" % (d, inputs, e, want)))
        return out
    if sorted(build.CALL_LOG) != sorted(expected_calls):
        out.append((_sig("calls", params), "%s(%s): the box functions were called as %s, feeding the inputs through the "
                    "boxes calls %s (each box once, also boxes without outputs)"
                    % (d, ", ".join(map(str, inputs)), sorted(build.CALL_LOG)[:6], sorted(expected_calls)[:6])))
    if got != want or type(got) is not type(want):
        out.append((_sig("value", params), "%s(%s) = %r, expected %r" % (d, ", ".join(map(str, inputs)), got, want)))
    if ref.scan(d):
        out.append((_sig("illtyped", params), "%s ill-typed: %s" % (d, ref.scan(d)[:2])))
    return out


def check_structural(params):
    from discopy.cartesian import Swap, Copy, Discard
    kind, l, r = params["kind"], params["l"], params.get("r", 0)
    out = []
    def load(inputs):
        if params.get("payload") is not None and inputs:
            k0 = params["payload"][0] % len(inputs)
            return inputs[:k0] + (PAYLOADS[params["payload"][1]],) + inputs[k0 + 1:]
        return inputs
    if kind == "swap":
        d = Swap(l, r)
        inputs = load(tuple("a%d" % k for k in range(l)) + tuple("b%d" % k for k in range(r)))
        want = inputs[l:] + inputs[:l]
    elif kind == "copy":
        d = Copy(l)
        inputs = load(tuple("a%d" % k for k in range(l)))
        want = inputs + inputs
    else:
        d = Discard(l)
        inputs = load(tuple("a%d" % k for k in range(l)))
        want = ()
    errs = ref.scan(d)
    if errs:
        out.append((_sig("illtyped", params), "%s(%s,%s) ill-typed: %s" % (kind, l, r, errs[:2])))
        return out
    if len(d.dom) != len(inputs) or len(d.cod) != len(want):
        out.append((_sig("arity", params), "%s(%s,%s) : %d -> %d" % (kind, l, r, len(d.dom), len(d.cod))))
        return out
    got = call(d, inputs)
    if got != conv(want, len(want)):
        out.append((_sig("value", params), "%s(%s,%s)(%s) = %r, expected %r" % (kind, l, r, inputs, got, conv(want, len(want)))))
    if machine(d, inputs) != tuple(want):
        out.append((_sig("wiring", params), "%s(%s,%s) boxes/offsets do not realise the map" % (kind, l, r)))
    return out


def check_naturality(params):
    from discopy.cartesian import Swap, Copy, Discard, Id
    k = build.kit("cartesian")
    f, g = k.box(tuple(params["f"])), k.box(tuple(params["g"]))
    out = []

    def cmp(name, lhs, rhs, n):
        inputs = tuple("i%d" % j for j in range(n))
        try:
            a, b = call(lhs, inputs), call(rhs, inputs)
        except Exception as e:  # noqa
            out.append((_sig(name + "-raises", params), "%s: %r (f=%s g=%s)" % (name, e, f, g)))
            return
        if a != b:
            out.append((_sig(name, params), "%s fails for f=%s g=%s: %r != %r" % (name, f, g, a, b)))
    fi, fo, gi, go = len(f.dom), len(f.cod), len(g.dom), len(g.cod)
    cmp("swap-natural", f @ g >> Swap(fo, go), Swap(fi, gi) >> g @ f, fi + gi)
    cmp("copy-natural", f >> Copy(fo), Copy(fi) >> f @ f, fi)
    cmp("discard-natural", f >> Discard(fo), Discard(fi), fi)
    cmp("tensor-then", (f @ g) >> Id(fo + go), f @ Id(gi) >> Id(fo) @ g, fi + gi)
    return out


def check_history(params):
    """Call sequences over boxes that share a name and arity but hold different functions (and
    diagrams mixing them): every call must depend on the diagram only, not on earlier calls."""
    from discopy.cartesian import Box, Id
    # a name nobody else in this process has used: the outcome of the case then depends on its
    # own call sequence only (needed for replay), whatever the process evaluated before
    h = "h" + digest(params["seq"])[:8]
    fns = {"p": build.symbolic_function("p", 1), "q": build.symbolic_function("q", 1),
           "r": build.symbolic_function("r", 2)}
    boxes = {"p": Box(h, 1, 1, fns["p"]), "q": Box(h, 1, 1, fns["q"]),
             "pq": Box(h, 1, 1, fns["p"]) >> Box(h, 1, 1, fns["q"]),
             "qp": Box(h, 1, 1, fns["q"]) >> Box(h, 1, 1, fns["p"]),
             "r": Box(h, 1, 2, fns["r"]), "p@q": Box(h, 1, 1, fns["p"]) @ Box(h, 1, 1, fns["q"])}
    want = {"p": "p0(i)", "q": "q0(i)", "pq": "q0(p0(i))", "qp": "p0(q0(i))", "r": ("r0(i)", "r1(i)"),
            "p@q": ("p0(i)", "q0(j)")}
    out = []
    for t, key in enumerate(params["seq"]):
        d = boxes[key]
        args = ("i", "j")[:len(d.dom)]
        got = d(*args)
        if got != want[key]:
            out.append((_sig("history", params), "call %d of the sequence %s: %s(%s) = %r, expected %r "
                        "(boxes share one name but hold different functions)"
                        % (t, params["seq"], key, ",".join(args), got, want[key])))
            break
    return out


def check_function(params):
    """The Function values themselves (what a diagram evaluates to): binary and n-ary tensor and
    composition of Python functions of every small arity, called on symbolic inputs."""
    from discopy.cartesian import Function
    shapes = [tuple(x) for x in params["shapes"]]
    fs = [Function(i, j, build.symbolic_function("f%d_" % t, j)) for t, (i, j) in enumerate(shapes)]
    out = []

    def apply(t, args):
        i, j = shapes[t]
        return tuple("f%d_%d(%s)" % (t, k, ",".join(map(str, args))) for k in range(j))
    n_in = sum(i for i, _ in shapes)
    inputs = tuple("i%d" % k for k in range(n_in))
    want, pos = (), 0
    for t, (i, j) in enumerate(shapes):
        want += apply(t, inputs[pos:pos + i])
        pos += i
    forms = {"f0.tensor(f1, ...)": lambda: fs[0].tensor(*fs[1:]),
             "Function.id(0).tensor(f0, f1, ...)": lambda: Function.id(0).tensor(*fs),
             "f0 @ f1 @ ...": lambda: __import__("functools").reduce(lambda a, b: a @ b, fs)}
    for label, thunk in forms.items():
        try:
            got = thunk()(*inputs)
        except Exception as e:  # noqa
            out.append((_sig("function-raises", [params, label]), "%s with arities %s raised %r" % (label, shapes, e)))
            continue
        if got != conv(want, len(want)):
            out.append((_sig("function-tensor", [params, label]), "%s with arities %s on %s = %r, expected %r"
                        % (label, shapes, inputs, got, conv(want, len(want)))))
    # sequential composition where the arities chain
    if all(shapes[t][1] == shapes[t + 1][0] for t in range(len(shapes) - 1)):
        ins = tuple("i%d" % k for k in range(shapes[0][0]))
        cur = ins
        for t in range(len(shapes)):
            cur = apply(t, cur)
        for label, thunk in {"f0.then(f1, ...)": lambda: fs[0].then(*fs[1:]),
                             "f0 >> f1 >> ...": lambda: __import__("functools").reduce(lambda a, b: a >> b, fs)}.items():
            try:
                got = thunk()(*ins)
            except Exception as e:  # noqa
                out.append((_sig("function-raises", [params, label]), "%s with arities %s raised %r" % (label, shapes, e)))
                continue
            if got != conv(cur, len(cur)):
                out.append((_sig("function-then", [params, label]), "%s with arities %s = %r, expected %r"
                            % (label, shapes, got, conv(cur, len(cur)))))
        params["_chain"] = True
    return out


def norm(r):
    def t(x):
        return tuple(t(y) for y in x) if isinstance(x, (list, tuple)) else x
    return t(r)


CASES = {k: safe("C19", f) for k, f in {"diagram": check_diagram, "structural": check_structural,
                                        "naturality": check_naturality,
                                        "history": check_history, "function": check_function}.items()}


def _worker(shard):
    part = Part()
    for case, params in shard:
        res = CASES[case](params)
        part.count("transitions")
        part.count("states")
        if case != "diagram" or len(params["recipe"][2]) >= 2:
            part.seen("nontrivial", repr(sorted((k, repr(v)) for k, v in params.items())))
        for s_, msg in res:
            part.violation(s_, msg, case, params)
        if case == "diagram" and len(part.samples) < 1 and len(params["recipe"][2]) == 3:
            part.sample(params)
    return part


def run(ctx):
    depth = 3 if ctx.quick else 4
    width = 3
    doms = [(1,) * n for n in range(width + 1)]
    S = sig()
    uni = list(build.expr_universe("cartesian", S, doms, depth, width))
    if ctx.quick:
        pass  # complete at this depth in the quick tier
    ctx.bounds.update(depth=depth, width=width, shapes=SHAPES, structural_max_width=4 if ctx.quick else 6)
    ctx.note("universe", "%d diagrams" % len(uni))
    ctx.rule = ("every cartesian diagram up to the bound called on symbolic inputs vs the wire machine; "
                "Swap/Copy/Discard of all widths; naturality of swap/copy/discard for every pair of "
                "boxes. nontrivial = diagrams with >= 2 boxes and all structural/naturality cases")
    ctx.assumptions = ["box functions return injective symbolic strings, never tuples (the library's "
                       "tuple-or-single-value convention cannot tell a tuple value from two wires)"]
    items = [("diagram", dict(recipe=r)) for r in uni]
    items += [("diagram", dict(recipe=r, none_input=i)) for i, r in enumerate(uni) if r[1] and len(r[2]) <= 2]
    for i, r in enumerate(uni):
        if r[1] and len(r[2]) <= 2:
            for pi in range(len(PAYLOADS)):
                items.append(("diagram", dict(recipe=r, payload=[i, pi])))
    for n in (2, 3):
        for shapes in itertools.product(SHAPES, repeat=n):
            if sum(i for i, _ in shapes) <= 4 and sum(j for _, j in shapes) <= 4:
                items.append(("function", dict(shapes=[list(x) for x in shapes])))
    m = 4 if ctx.quick else 6
    for l in range(m + 1):
        for r in range(m + 1):
            items.append(("structural", dict(kind="swap", l=l, r=r)))
        items.append(("structural", dict(kind="copy", l=l)))
        items.append(("structural", dict(kind="discard", l=l)))
        if 1 <= l <= 3:
            for pi in range(len(PAYLOADS)):
                for k0 in range(l):
                    items.append(("structural", dict(kind="copy", l=l, payload=[k0, pi])))
                    items.append(("structural", dict(kind="discard", l=l, payload=[k0, pi])))
                    for r in range(0, 3):
                        items.append(("structural", dict(kind="swap", l=l, r=r, payload=[k0, pi])))
    for f in S:
        for g in S:
            items.append(("naturality", dict(f=list(f), g=list(g))))
    keys = ["p", "q", "pq", "qp", "r", "p@q"]
    for n in (1, 2, 3):
        for seq in itertools.product(keys, repeat=n):
            items.append(("history", dict(seq=list(seq))))
    # history cases run first in fresh workers *and* interleaved with everything else
    for p in pmap(_worker, build.shards(items, 96)):
        ctx.merge(p)
    ctx.counters["traces_validated_against_impl"] = ctx.counters.get("transitions", 0)
