"""The box zoo: for every diagram class, every public box constructor with every combination of
its flags / variants (bit and qubit versions, daggered, controlled, parametrised, words of the
grammar modules, ...), plus the *composite subclasses*: diagrams with more than one box that are
instances of a subclass with its own constructor (IQPansatz, cartesian Swap/Copy/Discard, swaps and
permutations, cups and caps of composite types, foliations, bubbles).

Entries are expression strings evaluated in the namespace of the class, so a case is replayable
from (cls, expr).  Used by C01 (every value and everything derived from it is well-typed, mixing
classes is refused or well-typed), C02 (the dagger/unit/slice laws on every box kind) and C05
(interchanging inside composite-subclass instances)."""

_NS = {}


def namespace(cls):
    if cls in _NS:
        return _NS[cls]
    if cls == "cat":
        from discopy import cat as m
        ns = {k: getattr(m, k) for k in ("Ob", "Box", "Id", "Arrow", "Sum", "Bubble")}
    elif cls == "monoidal":
        from discopy import monoidal as m
        from discopy.grammar import cfg
        ns = {k: getattr(m, k) for k in ("Ty", "PRO", "Box", "Id", "Swap", "Sum", "Bubble", "Diagram")}
        ns.update(x=m.Ty("x"), y=m.Ty("y"), z=m.Ty("z"), CfgWord=cfg.Word)
    elif cls in ("rigid", "pregroup"):
        from discopy import rigid as m
        from discopy.grammar import pregroup
        ns = {k: getattr(m, k) for k in ("Ob", "Ty", "PRO", "Box", "Id", "Swap", "Cup", "Cap", "Diagram")}
        ns.update(n=m.Ty("n"), s=m.Ty("s"), m=m.Ty("m"), Word=pregroup.Word, eager_parse=pregroup.eager_parse)
    elif cls == "tensor":
        from discopy import tensor as m
        ns = {k: getattr(m, k) for k in ("Dim", "Box", "Swap", "Spider", "Id", "Cup", "Cap", "Bubble", "Diagram")}
    elif cls == "circuit":
        from discopy.quantum import circuit as m
        from discopy.quantum import gates as g
        ns = dict(vars(g))
        ns.update({k: getattr(m, k) for k in (
            "Measure", "Encode", "Discard", "MixedState", "Swap", "bit", "qubit", "Id", "Ty", "Digit", "Qudit",
            "IQPansatz", "Circuit", "Box")})
        import sympy
        ns.update(phi=sympy.Symbol("phi"))
    elif cls == "zx":
        from discopy.quantum import zx as m
        import sympy
        ns = {k: getattr(m, k) for k in ("Z", "X", "Y", "H", "SWAP", "scalar", "Id", "Diagram", "Box", "PRO",
                                         "Spider", "Scalar", "Swap", "CX", "CZ", "Had")}
        ns.update(phi=sympy.Symbol("phi"))
    elif cls == "biclosed":
        from discopy import biclosed as m
        from discopy.grammar import ccg
        ns = {k: getattr(m, k) for k in (
            "Ty", "Over", "Under", "Box", "FA", "BA", "FC", "BC", "FX", "BX", "Curry", "Id", "Diagram")}
        ns.update(x=m.Ty("x"), y=m.Ty("y"), z=m.Ty("z"), CcgWord=ccg.Word)
    elif cls == "cartesian":
        from discopy import cartesian as m
        from mc.build import symbolic_function
        ns = {k: getattr(m, k) for k in ("Box", "Id", "SWAP", "COPY", "DISCARD", "ADD", "Swap", "Copy",
                                         "Discard", "Diagram", "PRO")}
        ns["sym"] = symbolic_function
    else:
        raise ValueError(cls)
    _NS[cls] = ns
    return ns


BOXES = {
    "cat": [
        "Box('f', Ob('x'), Ob('y'))", "Box('f', Ob('x'), Ob('x'))", "Box('f', Ob('x'), Ob('y'), data=[1, 2])",
        "Box('f', Ob('x'), Ob('y'), data=0)", "Box('f', Ob('x'), Ob('y'), _dagger=True)",
        "Box('f', Ob('x'), Ob('y')).dagger()", "Box('f', Ob(1), Ob(2))",
        "Bubble(Box('f', Ob('x'), Ob('y')))", "Bubble(Box('f', Ob('x'), Ob('y')), Ob('a'), Ob('b'))",
    ],
    "monoidal": [
        "Box('f', x, y)", "Box('f', x @ y, z)", "Box('f', x, y @ z @ x)", "Box('f', Ty(), x)", "Box('f', x, Ty())",
        "Box('f', Ty(), Ty())", "Box('f', x, y, data={'a': 1})", "Box('f', x, y, data=0)",
        "Box('f', x, y @ x, _dagger=True)", "Box('f', x, y @ x).dagger()", "Swap(x, y)", "Swap(x, x)",
        "Box('f', x, y @ x).bubble()", "Bubble(Box('f', x, y @ x), dom=z, cod=z @ z)",
        "Box('g', x, y @ y @ y).bubble(cod=y)", "Box('f', x, y).bubble(cod=y @ y)", "Box('f', x @ x, y).bubble(dom=x)",
        "Box('f', x, y).bubble(dom=x @ x @ x)", "Box('f', x, y).bubble(dom=y, cod=x)", "Box('f', x, y).bubble(dom=Ty(), cod=Ty())",
        "CfgWord('w', x)", "CfgWord('w', x @ y)", "CfgWord('w', x, dom=y)", "CfgWord('w', x @ y, dom=z, data=3)",
    ],
    "rigid": [
        "Box('f', n, s)", "Box('f', n.l, n.r @ s)", "Box('f', Ty(), n.r.r)", "Box('f', n @ s.l, Ty())",
        "Box('f', Ty(), Ty())", "Box('f', n, s @ n, data=[1])", "Box('f', n, s @ n, _dagger=True)",
        "Box('f', n.r, s @ n.l).dagger()", "Cup(n, n.r)", "Cup(n.l, n)", "Cup(n.r, n.r.r)", "Cup(s.l.l, s.l)",
        "Cap(n, n.l)", "Cap(n.r, n)", "Cap(n.r.r, n.r)", "Cap(s.l, s.l.l)", "Swap(n, s)", "Swap(n.r, n)",
        "Swap(n.l, s.r.r)", "Box('f', n, s @ n.r).bubble()",
    ],
    "pregroup": [
        "Word('Alice', n)", "Word('loves', n.r @ s @ n.l)", "Word('e', Ty())", "Word('w', n, dom=s)",
        "Word('w', n @ n.l, dom=s.r, data=2)", "Word('loves', n.r @ s @ n.l).dagger()",
        "Word('w', n, _dagger=True)",
    ],
    "tensor": [
        "Box('a', Dim(2), Dim(3), [1, 2, 3, 4, 5, 6])", "Box('a', Dim(2, 3), Dim(2), list(range(12)))",
        "Box('a', Dim(1), Dim(2), [1j, 2])", "Box('a', Dim(2), Dim(1), [1j, 2])",
        "Box('a', Dim(1), Dim(1), [3])", "Box('a', Dim(2), Dim(3), [1, 2j, 3, 4, 5, 6]).dagger()",
        "Box('a', Dim(2), Dim(3), [1, 2, 3, 4, 5, 6], _dagger=True)",
        "Spider(1, 2, Dim(2))", "Spider(2, 1, Dim(3))", "Spider(0, 2, Dim(2))", "Spider(2, 0, Dim(2))",
        "Spider(0, 0, Dim(3))", "Spider(1, 1, Dim(2))", "Spider(3, 1, Dim(2))",
        "Swap(Dim(2), Dim(3))", "Swap(Dim(2), Dim(2))", "Cup(Dim(2), Dim(2))", "Cap(Dim(3), Dim(3))",
        "Box('a', Dim(2), Dim(2), [0, 1, 2, 3]).bubble()", "Bubble(Box('a', Dim(2), Dim(3), [1, 2, 3, 4, 5, 6]), func=lambda x: 2 * x)",
    ],
    "circuit": [
        "H", "X", "Y", "Z", "S", "T", "CX", "CZ", "SWAP", "S.dagger()", "T.dagger()",
        "Rx(0.3)", "Ry(0.3)", "Rz(0.3)", "CU1(0.3)", "CRz(0.3)", "CRx(0.3)", "Rx(phi)", "CRz(phi)",
        "Rz(0.3).dagger()", "CRx(0.3).dagger()",
        "Controlled(X)", "Controlled(S)", "Controlled(Rz(0.3))", "Controlled(Z)", "Controlled(Rx(0.2))",
        "Controlled(S).dagger()",
        "QuantumGate('V', 1, [0.6, 0.8, -0.8, 0.6])", "QuantumGate('V', 1, [0.6, 0.8j, 0.8j, 0.6]).dagger()",
        "QuantumGate('W', 2, [1, 2j, 3, 4, 5, 6, 7j, 8, 9, 10, 11, 12, 13, 14, 15, 16])", "QuantumGate('V', 1, [0.6, 0.8, -0.8, 0.6], _dagger=True)",
        "Ket(0)", "Ket(1)", "Ket(1, 0)", "Ket()", "Bra(0)", "Bra(0, 1)", "Bra()",
        "Bits(1)", "Bits(0, 1)", "Bits()", "Bits(1).dagger()", "Bits(1, 0, _dagger=True)",
        "Digits(0, 2, dim=3)", "Digits(1, dim=4).dagger()", "Copy()", "Match()", "Copy().dagger()", "Match().dagger()",
        "ClassicalGate('g', 2, 1, [0.9, 0.1, 0.3, 0.7, 0.2, 0.8, 0.6, 0.4])",
        "ClassicalGate('g', 1, 2, [0.1, 0.2, 0.3, 0.4, 0.4, 0.3, 0.2, 0.1]).dagger()",
        "ClassicalGate('g', 0, 1, [0.5, 0.5])", "ClassicalGate('g', 1, 0, [1, 1])",
        "Measure()", "Measure(2)", "Measure(destructive=False)", "Measure(override_bits=True)",
        "Measure(2, destructive=False)", "Measure(2, override_bits=True)", "Measure(0)",
        "Encode()", "Encode(2)", "Encode(constructive=False)", "Encode(reset_bits=True)",
        "Encode(2, constructive=False)", "Encode(2, reset_bits=True)",
        "Measure().dagger()", "Measure(destructive=False).dagger()", "Measure(override_bits=True).dagger()",
        "Encode().dagger()", "Encode(constructive=False).dagger()", "Encode(reset_bits=True).dagger()",
        "Discard()", "Discard(2)", "Discard(bit)", "Discard(qubit)", "Discard(bit @ bit)", "Discard(qubit @ qubit)", "Discard(bit @ qubit)", "Discard(qubit @ bit @ qubit)",
        "MixedState(qubit @ bit)", "MixedState(bit @ qubit @ bit)", "Discard(qubit @ bit).dagger()",
        "Discard(0)", "MixedState()", "MixedState(2)", "MixedState(bit)", "MixedState(qubit)", "MixedState(bit @ bit)",
        "Discard(bit).dagger()", "MixedState(bit).dagger()", "Discard(2).dagger()", "MixedState(bit @ bit).dagger()",
        "Discard(Ty(Digit(3)))", "MixedState(Ty(Qudit(3)))",
        "Swap(bit, qubit)", "Swap(qubit, bit)", "Swap(bit, bit)", "Swap(qubit, qubit)",
        "scalar(0.5j)", "scalar(2, is_mixed=True)", "sqrt(2)", "Scalar(0.5)", "MixedScalar(0.25)", "Sqrt(3)",
        "scalar(0.5j).dagger()", "sqrt(2).dagger()", "MixedScalar(0.25).dagger()", "scalar(phi)",
        "Box('b', qubit, qubit @ bit)", "Box('b', qubit, qubit @ qubit, is_mixed=False)", "Box('b', qubit, bit @ bit).dagger()",
    ],
    "zx": [
        "Z(1, 2, 0.25)", "Z(2, 1)", "Z(0, 1, 0.5)", "Z(1, 0, 0.3)", "Z(0, 0, 0.125)", "Z(3, 2, 0.75)", "Z(1, 1, phi)",
        "X(1, 2, 0.25)", "X(2, 1)", "X(0, 1, 0.5)", "X(1, 0, 0.3)", "X(0, 0)", "X(2, 3, 0.1)",
        "Y(1, 1, 0.25)", "Y(1, 2, 0.5)", "Y(0, 1)", "H", "Had()", "SWAP", "Swap(PRO(1), PRO(1))",
        "scalar(0.5)", "scalar(1j)", "Scalar(2)", "scalar(phi)", "Z(1, 2, 0.25).dagger()", "X(0, 1, 0.5).dagger()",
        "Y(1, 2, 0.5).dagger()", "scalar(1j).dagger()", "H.dagger()", "Box('b', PRO(1), PRO(2))",
    ],
    "biclosed": [
        "Box('f', x, y)", "Box('g', y, x @ x)", "Box('u', Ty(), x << y)", "Box('v', y >> x, Ty())",
        "FA(x << y)", "FA((x << y) << z)", "FA(x << (y >> z))", "BA(y >> x)", "BA((z >> y) >> x)", "BA(y >> (x << z))",
        "FC(x << y, y << z)", "FC((x >> z) << y, y << z)", "BC(x >> y, y >> z)", "BC(x >> y, y >> (z << x))",
        "FX(x << y, z >> y)", "BX(y << x, y >> z)",
        "Curry(Box('g', x @ y, z))", "Curry(Box('g', x @ y, z), left=True)", "Curry(Box('g', x @ y @ z, z), 2)",
        "Curry(Box('g', x @ y @ z, z), 2, left=True)", "CcgWord('w', x << y)", "CcgWord('w', x)",
    ],
    "cartesian": [
        "Box('f', 1, 2, sym('f', 2))", "Box('g', 2, 1, sym('g', 1))", "Box('u', 0, 1, sym('u', 1))",
        "Box('e', 1, 0, sym('e', 0))", "Box('s', 0, 0, sym('s', 0))", "Box('h', 3, 3, sym('h', 3))",
        "SWAP", "COPY", "DISCARD", "ADD",
    ],
}

# diagrams of more than one box whose Python class has its own constructor, or that come out of a
# class-level constructor (swap / permutation / cups / caps), or whose boxes are diagrams
COMPOSITES = {
    "monoidal": [
        "Diagram.swap(x @ y, z)", "Diagram.swap(x, y @ z @ x)", "Diagram.permutation([2, 0, 1], x @ y @ z)",
        "(Box('f', x, y) @ Box('g', y, z) >> Box('h', y @ z, x)).foliation()",
        "(Box('f', x, y) @ Box('g', y, z) @ Box('k', z, z) >> Box('h', y @ z, x) @ Id(z)).foliation()",
        "Diagram(x @ y, y @ x, [Box('f', x, y) @ Box('g', y, x)], [0])",
        "Diagram(x @ y @ x, y @ y, [Box('f', x, y) @ Box('g', y, Ty()), Box('f', x, y)], [0, 1])",
        "(Box('f', x, y) @ Box('g', y, z)).bubble() @ Box('g', y, z) >> Id(y @ z) @ Box('k', z, x)",
    ],
    "rigid": [
        "Diagram.swap(n @ s, n.r)", "Diagram.permutation([1, 2, 0], n @ s @ n.l)", "Diagram.cups(n @ s, s.r @ n.r)",
        "Diagram.caps(n @ s, s.l @ n.l)", "Diagram.cups(n.l @ s.l @ m.l, m @ s @ n)", "Box('f', n, s @ n).transpose()",
        "Box('f', n @ n, s).transpose(left=True)", "(Cap(n, n.l) @ Cap(s, s.l) >> Id(n) @ Swap(n.l, s) @ Id(s.l)).foliation()",
        "Diagram.fa(s @ n.l, n)", "Diagram.ba(n, n.r @ s)", "Diagram.fc(s, n, m)", "Diagram.bc(s, n, m)", "Diagram.fx(s, n, m)", "Diagram.bx(n, s, m)",
        "Diagram.curry(Box('f', n @ s, m))", "Diagram.curry(Box('f', n @ s @ m, m), 2, left=True)",
    ],
    "pregroup": [
        "Word('Alice', n) @ Word('loves', n.r @ s @ n.l) @ Word('Bob', n) >> Cup(n, n.r) @ Id(s) @ Cup(n.l, n)",
        "eager_parse(Word('Alice', n), Word('loves', n.r @ s @ n.l), Word('Bob', n))",
        "Word('Alice', n) @ Word('runs', n.r @ s) >> Cup(n, n.r) @ Id(s)",
    ],
    "tensor": [
        "Diagram.swap(Dim(2, 3), Dim(2))", "Diagram.permutation([2, 0, 1], Dim(2, 3, 2))", "Diagram.cups(Dim(2, 3), Dim(3, 2))",
        "Diagram.caps(Dim(2, 3), Dim(3, 2))", "Box('a', Dim(2), Dim(3, 2), list(range(12))).transpose()",
        "(Box('a', Dim(2), Dim(2), [0, 1, 2, 3]) @ Box('b', Dim(3), Dim(3), list(range(9)))).bubble() @ Spider(0, 1, Dim(2))",
    ],
    "circuit": [
        "IQPansatz(1, [0.1, 0.2, 0.3])", "IQPansatz(2, [[0.1]])", "IQPansatz(3, [[0.1, 0.2]])",
        "IQPansatz(3, [[0.1, 0.2], [0.3, 0.4]])", "IQPansatz(2, [[phi], [0.2]])",
        "Circuit.swap(qubit @ bit, qubit)", "Circuit.permutation([2, 0, 1], qubit @ bit @ qubit)",
        "Circuit.cups(qubit @ bit, bit @ qubit)", "Circuit.caps(bit @ qubit, qubit @ bit)",
        "Circuit.cups(qubit @ qubit, qubit @ qubit)", "Circuit.caps(bit @ bit, bit @ bit)",
        "CX.transpose()", "(Ket(0) @ H >> CX).transpose(left=True)", "Ket(0, 1).init_and_discard()",
        "(H @ Rz(0.3) >> CX).foliation()", "(Measure() @ H).init_and_discard()",
    ],
    "zx": [
        "Diagram.swap(2, 1)", "Diagram.swap(1, 2)", "Diagram.swap(PRO(2), PRO(2))", "Diagram.permutation([2, 0, 1])",
        "Diagram.cups(PRO(2), PRO(2))", "Diagram.caps(PRO(3), PRO(3))", "Z(1, 2, 0.25).transpose()",
        "(Z(1, 2, 0.25) @ X(1, 1, 0.5) >> H @ SWAP).foliation()",
    ],
    "biclosed": [
        "Id(x << y) @ Box('u', Ty(), y) >> FA(x << y)", "Box('u', Ty(), y) @ Id(y >> x) >> BA(y >> x)",
        "(Box('f', x, y) @ Box('g', y, x @ x)).foliation()",
    ],
    "cartesian": [
        "Swap(1, 2)", "Swap(2, 1)", "Swap(2, 2)", "Swap(0, 2)", "Swap(3, 1)", "Copy(0)", "Copy(1)", "Copy(2)", "Copy(3)",
        "Discard(0)", "Discard(2)", "Discard(3)",
        "(Box('f', 1, 2, sym('f', 2)) @ Box('g', 2, 1, sym('g', 1))).foliation()",
    ],
}


def value(cls, expr):
    return eval(expr, dict(namespace(cls)))


def entries(cls, composites=True):
    out = list(BOXES.get(cls, []))
    if composites:
        out += COMPOSITES.get(cls, [])
    return out


CLASSES = ("cat", "monoidal", "rigid", "pregroup", "tensor", "circuit", "zx", "biclosed", "cartesian")
