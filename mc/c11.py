"""C11 -- pure circuits evaluate to the unitary they describe.

Space: every named gate and every rotation at every grid phase (and their daggers, and controlled
versions); every pure circuit up to the depth/width bound over the gate alphabet with kets and bras
of every bitstring of length <= 2; every rewiring rewire(g, a, b) with a != b < n <= 5.
Oracle: pytket's own Op.get_unitary() for the identically named operation (phase in full turns =
tket half-turn parameter / 2), products over layers with numpy kron/matmul, conjugate transposes.
"""
import itertools

import numpy as np

from mc import ref, build, qref
from mc.core import Part, pmap, digest, safe

GRID = [0, 0.25, 0.3, 0.5, -0.7, 1.25]
NAMED = ["H", "S", "T", "X", "Y", "Z", "CX", "CZ", "SWAP"]
ROTS = ["Rx", "Ry", "Rz", "CU1", "CRz", "CRx"]


def _sig(kind, params):
    return "C11:%s:%s" % (kind, digest(params))


def scribble(value):
    """Overwrite, in place, the array of an evaluation the caller owns (what `result.array *= 2`
    or numpy's out= arguments do).  The library's own state must not be reachable through it."""
    a = getattr(value, "array", None)
    if isinstance(a, np.ndarray) and a.flags.writeable and a.size:
        a[...] = 7 - 3j if np.iscomplexobj(a) else 7


def check_gate(params):
    k = build.kit("circuit")
    g = k.box(("e", params["expr"]))
    out = []

    def bad(kind, msg, sig=None):
        out.append((sig or _sig(kind, params), "%s: %s" % (params["expr"], msg)))
    u = qref.gate_matrix(g)
    if u is None:
        raise KeyError("no reference for %s" % params["expr"])
    n_in = len(g.dom)
    got = qref.as_matrix(g.eval(), n_in)
    if not qref.close(got, u.T):
        bad("matrix", "eval() is not the standard matrix of the tket operation; got (as out x in)\n%s\nexpected\n%s"
            % (np.round(got.T, 3), np.round(u, 3)))
    if u.shape[0] == u.shape[1] and u.shape[0] > 1 and not qref.close(u @ u.conj().T, np.eye(u.shape[0])):
        raise AssertionError("reference matrix not unitary")
    try:
        gd = g.dagger()
        got_d = qref.as_matrix(gd.eval(), len(gd.dom))
    except Exception as e:  # noqa
        bad("dagger-raises", "%r" % (e,))
        return out
    if not qref.close(got_d, got.conj().T):
        bad("dagger", "dagger().eval() is not the conjugate transpose of eval(); got (as out x in)\n%s\nexpected\n%s"
            % (np.round(got_d.T, 3), np.round(got.conj(), 3)))
    if len(gd.dom) != len(g.cod) or len(gd.cod) != len(g.dom):
        bad("dagger-types", "dagger : %s -> %s" % (gd.dom, gd.cod))
    # the evaluation belongs to the caller: overwriting it must not change what the gate is
    r1, r2 = g.eval(), gd.eval()
    scribble(r1)
    scribble(r2)
    again, again_d = qref.as_matrix(k.box(("e", params["expr"])).eval(), n_in), qref.as_matrix(g.dagger().eval(), len(gd.dom))
    if not qref.close(again, got) or not qref.close(again_d, got_d):
        bad("result-aliased", "after the array returned by eval() was overwritten in place, the gate evaluates "
            "differently: the result shares memory with the gate")
    return out


def pure_sig(quick):
    ph = [0.3, -0.7] if quick else [0.25, 0.3, -0.7, 1.25]
    sig = [("e", n) for n in NAMED]
    for r in ROTS:
        for p in ph[:2] if r in ("CU1", "CRx") and quick else ph:
            sig.append(("e", "%s(%r)" % (r, p)))
    sig += [("e", "Rx(0.3004)"), ("e", "Rz(0.2996)"), ("e", "CRz(0.3004)"),   # print like the 0.3 gates
            ("e", "Controlled(S)"), ("e", "Controlled(Rz(0.3))"), ("e", "Controlled(Z)"),
            ("e", "S.dagger()"), ("e", "T.dagger()"), ("e", "Y.dagger()"),
            ("e", "Ket(0)"), ("e", "Ket(1)"), ("e", "Ket(1, 0)"), ("e", "Bra(1)"), ("e", "Bra(0, 1)"),
            ("e", "Bra(0)")]
    return sig


def check_circuit(params):
    recipe = norm(params["recipe"])
    d = build.build(recipe)
    out = []

    def bad(kind, msg):
        out.append((_sig(kind, params), "%s: %s" % (d, msg)))
    want = qref.pure_ref(d)
    n_in = len(d.dom)
    try:
        got = qref.as_matrix(d.eval(), n_in)
    except Exception as e:  # noqa
        bad("raises", "eval() raised %r" % (e,))
        return out
    if not qref.close(got, want):
        bad("value", "eval() differs from the ordered product of the gates' standard matrices")
        return out
    from discopy.quantum import gates
    user_defined = any(type(b) is gates.QuantumGate and b._name not in qref.TKET for b in d.boxes)
    if not any(isinstance(b, (gates.Ket, gates.Bra, gates.Scalar)) for b in d.boxes) and len(d) and not user_defined:
        if not qref.close(got @ got.conj().T, np.eye(got.shape[0])):
            bad("not-unitary", "evaluation of a circuit of unitary gates is not unitary")
    try:
        dg = d.dagger()
        got_d = qref.as_matrix(dg.eval(), len(dg.dom))
    except Exception as e:  # noqa
        bad("dagger-raises", "%r" % (e,))
        return out
    if not qref.close(got_d, got.conj().T):
        bad("dagger", "dagger().eval() is not the conjugate transpose of eval()")
    r1 = d.eval()
    scribble(r1)
    again = qref.as_matrix(build.build(recipe).eval(), n_in)
    if not qref.close(again, got):
        bad("result-aliased", "after the array returned by eval() was overwritten in place, the same circuit "
            "evaluates differently: the result shares memory with a gate")
    return out


def check_rewire(params):
    from discopy.quantum import gates, circuit
    k = build.kit("circuit")
    g = k.box(("e", params["expr"]))
    a, b, n = params["a"], params["b"], params["n"]
    out = []
    u = qref.gate_matrix(g)
    try:
        c = gates.rewire(g, a, b, dom=circuit.qubit ** n)
        got = qref.as_matrix(c.eval(), n)
    except NotImplementedError:
        params["_refused"] = True
        return out
    except Exception as e:  # noqa
        out.append((_sig("raises", params), "rewire(%s, %d, %d, n=%d) raised %r" % (params["expr"], a, b, n, e)))
        return out
    want = qref.embed_two_qubit(u, a, b, n).T
    if ref.scan(c):
        out.append((_sig("illtyped", params), "rewire result ill-typed: %s" % ref.scan(c)[:2]))
    if len(c.dom) != n or len(c.cod) != n:
        out.append((_sig("types", params), "rewire(%s, %d, %d, n=%d) : %s -> %s" % (params["expr"], a, b, n, c.dom, c.cod)))
    elif not qref.close(got, want):
        out.append((_sig("value", params), "rewire(%s, %d, %d, dom=qubit**%d) = %s does not evaluate to the gate "
                    "acting on qubits %d and %d" % (params["expr"], a, b, n, c, a, b)))
    return out


def norm(r):
    def t(x):
        return tuple(t(y) for y in x) if isinstance(x, (list, tuple)) else x
    return t(r)


CASES = {k: safe("C11", f) for k, f in {"gate": check_gate, "circuit": check_circuit,
                                        "rewire": check_rewire}.items()}


def _worker(shard):
    part = Part()
    for case, params in shard:
        res = CASES[case](params)
        part.count("transitions")
        part.count("states")
        if params.pop("_refused", False):
            part.count("refusals")
        part.seen("nontrivial", repr(sorted((k, repr(v)) for k, v in params.items())))
        for s_, msg in res:
            part.violation(s_, msg, case, params)
        if case == "circuit" and len(part.samples) < 1 and params["recipe"][0] != "zoo" and len(params["recipe"][2]) == 2:
            part.sample(params)
    return part


def gate_exprs():
    out = list(NAMED)
    for r in ROTS:
        out += ["%s(%r)" % (r, p) for p in GRID]
    for g in ("X", "Y", "Z", "S", "T", "H", "Rz(0.3)", "Rx(-0.7)", "Ry(0.25)"):
        out.append("Controlled(%s)" % g)
    out += ["Ket(%s)" % ", ".join(map(str, b)) for n in (1, 2) for b in itertools.product((0, 1), repeat=n)]
    out += ["Bra(%s)" % ", ".join(map(str, b)) for n in (1, 2) for b in itertools.product((0, 1), repeat=n)]
    out += ["scalar(0.5j)", "scalar(-1.5)", "sqrt(2)"]
    return out


def run(ctx):
    depth = 2 if ctx.quick else 3
    width = 3
    items = [("gate", dict(expr=e)) for e in gate_exprs()]
    sig = pure_sig(ctx.quick)
    doms = [("qubit",) * n for n in range(width + 1)]
    uni = list(build.expr_universe("circuit", sig, doms, depth, width))
    if ctx.quick:
        pass  # complete at this depth in the quick tier
    if not ctx.quick:
        uni = [r for r in uni if len(r[2]) <= 2] + [r for r in uni if len(r[2]) == 3][::4]
        ctx.cap_hit("depth-3 circuits enumerated with stride 4 (depth <= 2 complete)")
    items += [("circuit", dict(recipe=r)) for r in uni]
    # the box zoo: every pure box constructor x flag variant and the pure composite subclasses
    from mc import zoo
    nz = 0
    for e in zoo.entries("circuit"):
        v = zoo.value("circuit", e)
        if not hasattr(v, 'is_mixed') or v.is_mixed or v.free_symbols or any(o.name != "qubit" for t in (v.dom, v.cod) for o in t.objects) \
                or any(type(b).__name__ in ("Box", "Bubble") or not hasattr(b, "name") for b in v.boxes):
            continue
        try:
            qref.pure_ref(build.build(("zoo", "circuit", e)))
        except KeyError:
            continue      # not a pure quantum box (empty Bits, ...): C12's business
        items.append(("circuit", dict(recipe=("zoo", "circuit", e))))
        nz += 1
    ctx.note("sizes", "%d pure zoo entries" % nz)
    nmax = 4 if ctx.quick else 5
    for e in ("CX", "CZ", "SWAP", "CRz(0.3)", "CRx(-0.7)", "CU1(0.25)", "Controlled(S)"):
        for n in range(2, nmax + 1):
            for a in range(n):
                for b in range(n):
                    if a != b:
                        items.append(("rewire", dict(expr=e, a=a, b=b, n=n)))
    ctx.bounds.update(phase_grid=GRID, circuit_depth=depth, qubits=width, rewire_qubits=nmax)
    ctx.note("sizes", "%d single gates, %d circuits" % (len(gate_exprs()), len(uni)))
    ctx.rule = ("every single gate/rotation/controlled gate/ket/bra at every grid phase vs pytket's "
                "unitary and its dagger; every pure circuit up to the bound vs the layer product of "
                "reference matrices, unitarity, dagger = conjugate transpose; every rewire(g,a,b,n). "
                "nontrivial = distinct cases")
    ctx.assumptions = ["pytket Op.get_unitary() is the standard matrix (ILO-BE, qubit 0 most significant)",
                       "tolerance 1e-9 on O(1) floating-point entries; phases on the stated grid only"]
    for p in pmap(_worker, build.shards(items, 96)):
        ctx.merge(p)
    ctx.counters["traces_validated_against_impl"] = ctx.counters.get("transitions", 0)
