"""Deterministic pools of values per diagram class (used by C02/C03/C04...).
Every pool element is (recipe, value) with recipe JSON-able, so cases can be replayed by index
or by recipe."""
from mc import build

SIGS = {
    "monoidal": (
        [("box", "f", ("x",), ("y",)), ("box", "g", ("y",), ("x", "x")), ("box", "h", ("x", "x"), ("y",)),
         ("box", "u", (), ("x",)), ("box", "e", ("y",), ()), ("box", "s", (), ()),
         ("box", "fd", ("y",), ("x",), True), ("swap", "x", "y"), ("box", "k", ("x", "y"), ("y", "x")),
         ("box", "z0", ("x",), ("x",), False, 0), ("box", "zl", ("x",), ("y",), False, ())],
        [(), ("x",), ("y",), ("x", "y"), ("x", "x")]),
    "rigid": (
        [("box", "f", ("n",), ("n.r",)), ("box", "g", ("n",), ("n", "n")), ("box", "u", (), ("n",)),
         ("box", "e", ("n.r",), ()), ("box", "s", (), ()), ("box", "fd", ("n.r",), ("n",), True),
         ("cup", "n", "n.r"), ("cap", "n.r", "n"), ("cap", "n", "n.l"), ("cup", "n.l", "n"),
         ("cap", "n", "n.r"), ("cup", "n.r", "n"), ("swap", "n", "n.r"),
         ("box", "z0", ("n",), ("n",), False, 0.0)],
        [(), ("n",), ("n.r",), ("n", "n.r"), ("n", "n")]),
    "tensor": (
        [("tbox", "a", (2,), (3,)), ("tbox", "b", (3,), (2, 2)), ("tbox", "c", (), (2,)),
         ("tbox", "d", (2, 3), ()), ("tbox", "s", (), ()), ("tbox", "ad", (3,), (2,), True),
         ("e", "Swap(Dim(2), Dim(3))"), ("e", "Spider(1, 2, 2)"), ("e", "Spider(2, 0, 3)")],
        [(), (2,), (3,), (2, 3), (2, 2)]),
    "circuit": (
        [("e", "H"), ("e", "CX"), ("e", "Rz(0.3)"), ("e", "Ry(0.25)"), ("e", "S"), ("e", "Ket(0)"),
         ("e", "Bra(1)"), ("e", "Measure()"), ("e", "Discard()"), ("e", "Swap(bit, qubit)"),
         ("e", "Bits(1)"), ("e", "scalar(0.5j)"), ("e", "Encode()"), ("e", "CRz(0.7)"),
         ("e", "Controlled(S)"), ("e", "Copy()"), ("e", "MixedState()")],
        [(), ("qubit",), ("bit",), ("bit", "qubit"), ("qubit", "qubit")]),
    "zx": (
        [("e", "Z(1, 2, 0.25)"), ("e", "X(2, 1)"), ("e", "H"), ("e", "SWAP"), ("e", "scalar(0.5)"),
         ("e", "Z(0, 1, 0.3)"), ("e", "X(1, 0, 0.5)"), ("e", "Y(1, 1, 0.25)")],
        [(), (1,), (1, 1)]),
    "biclosed": (
        [("e", "Box('f', x, y)"), ("e", "Box('g', y, x @ x)"), ("e", "Box('u', Ty(), x << y)"),
         ("e", "FA(x << y)"), ("e", "BA(y >> x)"), ("e", "FC(x << y, y << z)"),
         ("e", "BC(x >> y, y >> z)"), ("e", "FX(x << y, z >> y)"), ("e", "BX(y << x, y >> z)"),
         ("e", "Curry(Box('g', x @ y, z))"), ("e", "Curry(Box('g', x @ y, z), left=True)"),
         ("e", "Box('s', Ty(), Ty())")],
        [(), ("x",), ("y",), ("(x << y)", "y"), ("y", "(y >> x)"), ("(x << y)", "(y << z)"),
         ("(x >> y)", "(y >> z)"), ("x", "y")]),
    "cartesian": (
        [("e", "Box('f', 1, 2, sym('f', 2))"), ("e", "Box('g', 2, 1, sym('g', 1))"),
         ("e", "Box('u', 0, 1, sym('u', 1))"), ("e", "Box('e', 1, 0, sym('e', 0))"),
         ("e", "Box('s', 0, 0, sym('s', 0))"), ("e", "SWAP"), ("e", "COPY"), ("e", "DISCARD")],
        [(), (1,), (1, 1)]),
}


def recipes(cls, depth=2, width=3):
    sig, doms = SIGS[cls]
    if cls in ("monoidal", "rigid"):
        return list(build.universe(cls, sig, doms, depth, width))
    return list(build.expr_universe(cls, sig, doms, depth, width))


def pool(cls, size=40, depth=2, width=3):
    """All depth<=1 recipes plus an evenly spaced selection of deeper ones, up to `size`."""
    rs = recipes(cls, depth, width)
    shallow = [r for r in rs if len(r[2]) <= 1]
    deep = [r for r in rs if len(r[2]) > 1]
    room = max(0, size - len(shallow))
    if room and deep:
        step = max(1, len(deep) // room)
        deep = deep[::step][:room]
    else:
        deep = []
    return shallow[:size] + deep
