"""C17 -- export to and import from pyzx graphs preserve the ZX diagram.

Export: every ZX diagram up to the bound whose underlying graph is simple (checked by the
harness on the wiring graph): pyzx's own to_matrix(preserve_scalar=True) of d.to_pyzx() must
equal the textbook value of d.  Import: the exported graph, and every simple pyzx graph built
directly through pyzx (<= 2 inputs, <= 2 outputs, <= 2-3 spiders, every attachment, every
simple/Hadamard edge labelling, several vertex numberings): from_pyzx must be well-typed, have the
right numbers of wires and denote the same matrix up to a scalar; malformed boundaries -> ValueError.
pyzx is driven through the in-process adapter of mc.pyzx_adapter (no change to discopy).
"""
import itertools

import numpy as np

from mc import ref, build, qref, pyzx_adapter
from mc.core import Part, pmap, digest, safe


def _sig(kind, params):
    return "C17:%s:%s" % (kind, digest(params))


def zx_sig(quick):
    sig = []
    shapes = [(i, j) for i in range(4) for j in range(4) if 0 < i + j <= (3 if quick else 4)]
    for i, j in shapes:
        for p in ((0, 0.25, -0.25) if quick else (0, 0.25, 0.3, -0.25, -0.7)):
            sig.append(("e", "Z(%d, %d, %r)" % (i, j, p)))
            sig.append(("e", "X(%d, %d, %r)" % (i, j, p)))
    sig += [("e", "H"), ("e", "SWAP"), ("e", "scalar(0.5)"), ("e", "scalar(1j)")]
    return sig


def simple_graph(d):
    """Is the underlying graph simple: no two spiders joined by more than one wire, no spider
    joined to itself?  Computed on the wiring graph with swaps and H boxes transparent."""
    from discopy.quantum import zx

    def nm(b):
        if isinstance(b, zx.Swap):
            return "swap"
        if isinstance(b, zx.Had):
            return "had"
        return str(b.name)

    def transparent(name, bd, bc):
        if name == "swap":
            return [(("d", 0), ("c", 1)), (("d", 1), ("c", 0))]
        if name == "had":
            return [(("d", 0), ("c", 0))]
        return None
    edges, loops = ref.wiring(ref.to_model(d, nm), transparent)
    seen = set()
    for e in edges:
        ends = [p[0] if isinstance(p[0], tuple) else p for p in e]
        ends = tuple(sorted(map(repr, ends)))
        if len(e) == 2:
            a, b = list(e)
            if isinstance(a[0], tuple) and isinstance(b[0], tuple) and a[0] == b[0]:
                return False    # self loop
        if all(isinstance(p[0], tuple) for p in e):
            if ends in seen:
                return False
            seen.add(ends)
    return loops == 0


def graph_matrix(g):
    """[in, out] matrix of a pyzx graph by pyzx's own tensor semantics."""
    return np.asarray(g.to_matrix(preserve_scalar=True), dtype=complex).T


def check_export(params):
    pyzx_adapter.install()
    from discopy.quantum.zx import Diagram
    d = build.build(norm(params["recipe"]))
    out = []

    def bad(kind, msg):
        out.append((_sig(kind, params), "%s: %s" % (d, msg)))
    if not simple_graph(d):
        params["_skipped"] = True
        return out
    want = qref.zx_ref(d)
    try:
        g = d.to_pyzx()
    except Exception as e:  # noqa
        bad("to_pyzx-raises", "%s: %s" % (type(e).__name__, str(e)[:120]))
        return out
    if len(g.inputs) != len(d.dom) or len(g.outputs) != len(d.cod):
        bad("boundary", "graph has %d inputs / %d outputs" % (len(g.inputs), len(g.outputs)))
        return out
    snap = ref.snapshot(d)
    g2 = d.to_pyzx()
    if ref.snapshot(d) != snap or (list(g2.inputs), list(g2.outputs), sorted(g2.vertices()), sorted(map(tuple, g2.edges()))) != \
            (list(g.inputs), list(g.outputs), sorted(g.vertices()), sorted(map(tuple, g.edges()))):
        bad("second-export", "to_pyzx() of the same diagram a second time gives a different graph, or the diagram was changed")
    try:
        got = graph_matrix(g)
    except Exception as e:  # noqa
        params["_pyzx_cannot"] = True     # pyzx itself cannot evaluate this graph
        return out
    if not qref.close(got, want, 1e-7):
        bad("export-meaning", "pyzx evaluates to_pyzx(d) differently from the diagram (phases, Hadamard "
            "edges, order of inputs/outputs or scalar)")
        return out
    # the dagger of the diagram (boxes produced by the library's own dagger) exports to the adjoint matrix
    try:
        dd = d.dagger()
        gd = graph_matrix(dd.to_pyzx())
        if simple_graph(dd) and not qref.close(gd, want.conj().T, 1e-7):
            bad("export-dagger", "pyzx evaluates to_pyzx(d.dagger()) to something else than the conjugate transpose of the diagram")
            return out
    except Exception as e:  # noqa
        if not isinstance(e, (ValueError, KeyError, AssertionError)) or "dagger" in str(e):
            bad("export-dagger-raises", "to_pyzx(d.dagger()) raised %s: %s" % (type(e).__name__, str(e)[:120]))
            return out
    # import it back
    snapshot = (list(g.inputs), list(g.outputs), sorted(g.vertices()), sorted(map(tuple, map(sorted, g.edges()))))
    try:
        back = Diagram.from_pyzx(g)
    except Exception as e:  # noqa
        bad("from_pyzx-raises", "from_pyzx(to_pyzx(d)) raised %s: %s" % (type(e).__name__, str(e)[:120]))
        return out
    after = (list(g.inputs), list(g.outputs), sorted(g.vertices()), sorted(map(tuple, map(sorted, g.edges()))))
    if after != snapshot:
        bad("graph-mutated", "from_pyzx changed the graph it was given: inputs/outputs %s -> %s" % (snapshot[:2], after[:2]))
        return out
    again = Diagram.from_pyzx(g)
    if ref.diagram_key(again) != ref.diagram_key(back):
        bad("import-history", "a second from_pyzx of the same graph gives %s, the first gave %s" % (again, back))
        return out
    errs = ref.scan(back)
    if errs:
        bad("reimport-illtyped", "from_pyzx(to_pyzx(d)) = %s ill-typed: %s" % (back, errs[:2]))
        return out
    if len(back.dom) != len(d.dom) or len(back.cod) != len(d.cod):
        bad("reimport-wires", "from_pyzx(to_pyzx(d)) : %d -> %d" % (len(back.dom), len(back.cod)))
        return out
    ok, lam = qref.proportional(qref.zx_ref(back), want, 1e-7)
    if np.all(np.abs(want) < 1e-12):
        return out
    if not ok:
        bad("reimport-meaning", "from_pyzx(to_pyzx(d)) = %s does not denote the same matrix up to a scalar" % (back,))
    return out


def make_graph(spec):
    """spec: dict(order, spiders=[(type, phase)], ins=[spider idx], outs=[spider idx],
    in_h=[0/1], out_h=[0/1], ss=[(i, j, h)])."""
    G = pyzx_adapter.install()
    from pyzx import VertexType as VT, EdgeType as ET
    g = G()
    ids = {}
    for kind, i in spec["order"]:
        if kind == "i" or kind == "o":
            ids[(kind, i)] = g.add_vertex(VT.BOUNDARY)
        else:
            ty, ph = spec["spiders"][i]
            ids[("s", i)] = g.add_vertex(VT.Z if ty == "Z" else VT.X, phase=ph)
    for i, s in enumerate(spec["ins"]):
        g.add_edge((ids[("i", i)], ids[("s", s)]), ET.HADAMARD if spec["in_h"][i] else ET.SIMPLE)
    for i, s in enumerate(spec["outs"]):
        g.add_edge((ids[("s", s)], ids[("o", i)]), ET.HADAMARD if spec["out_h"][i] else ET.SIMPLE)
    for a, b, h in spec["ss"]:
        g.add_edge((ids[("s", a)], ids[("s", b)]), ET.HADAMARD if h else ET.SIMPLE)
    g.set_inputs([ids[("i", i)] for i in range(len(spec["ins"]))])
    g.set_outputs([ids[("o", i)] for i in range(len(spec["outs"]))])
    return g


def check_import(params):
    from discopy.quantum.zx import Diagram
    g = make_graph(params["spec"])
    out = []

    def bad(kind, msg):
        out.append((_sig(kind, params), "graph %s: %s" % (params["spec"], msg)))
    try:
        want = graph_matrix(g)
    except Exception:
        params["_pyzx_cannot"] = True
        return out
    snapshot = (list(g.inputs), list(g.outputs), sorted(g.vertices()), sorted(map(tuple, map(sorted, g.edges()))))
    try:
        d = Diagram.from_pyzx(g)
    except Exception as e:  # noqa
        bad("from_pyzx-raises", "%s: %s" % (type(e).__name__, str(e)[:120]))
        return out
    after = (list(g.inputs), list(g.outputs), sorted(g.vertices()), sorted(map(tuple, map(sorted, g.edges()))))
    if after != snapshot:
        bad("graph-mutated", "from_pyzx changed its argument: inputs/outputs/vertices/edges %s -> %s" % (snapshot[:2], after[:2]))
        return out
    d2 = Diagram.from_pyzx(g)
    if ref.diagram_key(d2) != ref.diagram_key(d):
        bad("import-history", "a second from_pyzx of the same graph gives a different diagram: %s then %s" % (d, d2))
        return out
    errs = ref.scan(d)
    if errs:
        bad("illtyped", "from_pyzx = %s ill-typed: %s" % (d, errs[:2]))
        return out
    if len(d.dom) != len(params["spec"]["ins"]) or len(d.cod) != len(params["spec"]["outs"]):
        bad("wires", "from_pyzx : %d -> %d" % (len(d.dom), len(d.cod)))
        return out
    if np.all(np.abs(want) < 1e-12):
        return out
    ok, lam = qref.proportional(qref.zx_ref(d), want, 1e-7)
    if not ok:
        bad("import-meaning", "from_pyzx = %s does not denote pyzx's matrix of the graph up to a scalar" % (d,))
    return out


def check_refusal(params):
    """Boundary vertex missing from inputs/outputs, or shared between them -> ValueError."""
    from discopy.quantum.zx import Diagram
    spec = dict(params["spec"])
    g = make_graph(spec)
    out = []
    ins, outs = list(g.inputs), list(g.outputs)
    if params["kind"] == "missing-input" and ins:
        g.set_inputs(ins[1:])
    elif params["kind"] == "missing-output" and outs:
        g.set_outputs(outs[:-1])
    elif params["kind"] == "shared" and ins:
        g.set_outputs(outs + ins[:1])
    else:
        return out
    try:
        d = Diagram.from_pyzx(g)
    except ValueError:
        return out
    except Exception as e:  # noqa
        out.append((_sig("refusal-type", params), "%s on %s: expected ValueError, got %r" % (params["kind"], spec, e)))
        return out
    out.append((_sig("accepted", params), "%s on %s: expected ValueError, got %s" % (params["kind"], spec, d)))
    return out


def norm(r):
    def t(x):
        return tuple(t(y) for y in x) if isinstance(x, (list, tuple)) else x
    return t(r)


CASES = {k: safe("C17", f) for k, f in {"export": check_export, "import": check_import,
                                        "refusal": check_refusal}.items()}


def graph_specs(quick):
    phases = [0.25, 0.5, 0]
    specs = []
    for k in (1, 2) if quick else (1, 2, 3):
        pairs = [(a, b) for a in range(k) for b in range(a + 1, k)]
        for n_in in range(0, 3):
            for n_out in range(0, 3):
                if k == 3 and n_in + n_out > 3:
                    continue
                for types in itertools.product("ZX", repeat=k):
                    spiders = [(t, phases[i]) for i, t in enumerate(types)]
                    for ins in itertools.product(range(k), repeat=n_in):
                        for outs in itertools.product(range(k), repeat=n_out):
                            for present in itertools.product((0, 1), repeat=len(pairs)):
                                edges = [p for p, on in zip(pairs, present) if on]
                                n_e = n_in + n_out + len(edges)
                                for hs in itertools.product((0, 1), repeat=n_e):
                                    if quick and k == 2 and sum(hs) > 2:
                                        continue
                                    if k == 3 and sum(hs) > 1:
                                        continue
                                    orders = [[("i", i) for i in range(n_in)] + [("s", i) for i in range(k)]
                                              + [("o", i) for i in range(n_out)]]
                                    if k >= 2:
                                        orders.append([("o", i) for i in range(n_out)] + [("s", k - 1 - i) for i in range(k)]
                                                      + [("i", i) for i in range(n_in)])
                                        orders.append([("s", 0)] + [("i", i) for i in range(n_in)]
                                                      + [("o", i) for i in range(n_out)] + [("s", i) for i in range(1, k)])
                                    for order in orders:
                                        specs.append(dict(
                                            order=order, spiders=spiders, ins=list(ins), outs=list(outs),
                                            in_h=list(hs[:n_in]), out_h=list(hs[n_in:n_in + n_out]),
                                            ss=[(a, b, h) for (a, b), h in zip(edges, hs[n_in + n_out:])]))
    return specs


def _worker(shard):
    part = Part()
    for case, params in shard:
        res = CASES[case](params)
        part.count("transitions")
        part.count("states")
        if params.pop("_skipped", False):
            part.count("non_simple_skipped")
        elif params.pop("_pyzx_cannot", False):
            part.count("pyzx_cannot_evaluate")
        else:
            part.seen("nontrivial", repr(sorted((k, repr(v)) for k, v in params.items())))
        for s_, msg in res:
            part.violation(s_, msg, case, params)
        if case == "export" and len(part.samples) < 1 and len(params["recipe"][2]) == 3:
            part.sample(params)
    return part


def run(ctx):
    depth = 3
    uni = list(build.expr_universe("zx", zx_sig(ctx.quick), [(), (1,), (1, 1)], depth, 3))
    if ctx.quick:
        uni = [r for r in uni if len(r[2]) <= 1] + [r for r in uni if len(r[2]) == 2][::3] + \
            [r for r in uni if len(r[2]) == 3][::150]
        ctx.note("stride", "depth-2 every 3rd, depth-3 every 150th")
        ctx.cap_hit("ZX diagrams: depth 2 every 3rd, depth 3 every 150th (depth <= 1 complete); two-spider graphs every 4th (one-spider graphs complete)")
    else:
        uni = [r for r in uni if len(r[2]) <= 2] + [r for r in uni if len(r[2]) == 3][::15]
        ctx.cap_hit("depth-3 ZX diagrams enumerated with stride 15 (depth <= 2 complete)")
    specs = graph_specs(ctx.quick)
    if ctx.quick:
        specs = [s for s in specs if len(s["spiders"]) == 1] + [s for s in specs if len(s["spiders"]) == 2][::4]
    items = [("export", dict(recipe=r)) for r in uni]
    items += [("import", dict(spec=s)) for s in specs]
    for s in specs[::37]:
        for kind in ("missing-input", "missing-output", "shared"):
            items.append(("refusal", dict(spec=s, kind=kind)))
    ctx.bounds.update(zx_depth=depth, width=3, graphs=len(specs))
    ctx.note("sizes", "%d ZX diagrams, %d pyzx graphs" % (len(uni), len(specs)))
    ctx.rule = ("export: every simple ZX diagram of the universe: pyzx's matrix of to_pyzx(d) == textbook "
                "value; re-import well-typed, same wires, same matrix up to a scalar. import: every simple "
                "pyzx graph of the enumerated family (attachments x spider types x edge sets x Hadamard "
                "labellings x vertex numberings). refusals of malformed boundaries. nontrivial = distinct "
                "evaluated cases")
    ctx.assumptions = ["pyzx 0.10.6 to_matrix(preserve_scalar=True) is pyzx's tensor semantics (calibrated "
                       "on a hand-built asymmetric graph in mc/c17.py:calibrate)",
                       "adapter mc/pyzx_adapter.py; tolerance 1e-7 (pyzx phases are Fractions of floats)"]
    calibrate()
    for p in pmap(_worker, build.shards(items, 128)):
        ctx.merge(p)
    ctx.counters["traces_validated_against_impl"] = ctx.counters.get("transitions", 0)


def calibrate():
    """pyzx's matrix convention on a hand-built asymmetric graph (not through discopy):
    in0 -- Z(1/4 turn) -- X(1/8 turn) -- out ;  in1 -H- X."""
    g = make_graph(dict(order=[("i", 0), ("i", 1), ("s", 0), ("s", 1), ("o", 0)],
                        spiders=[("Z", 0.5), ("X", 0.25)], ins=[0, 1], outs=[1], in_h=[0, 1], out_h=[0],
                        ss=[(0, 1, 0)]))
    z = qref.z_spider(1, 1, 0.25)
    x = np.kron(qref.HAD, qref.HAD) @ qref.z_spider(2, 1, 0.125) @ qref.HAD
    want = np.kron(z, qref.HAD) @ x
    if not qref.close(graph_matrix(g), want, 1e-9):
        raise AssertionError("pyzx matrix convention is not the calibrated one")
