"""Quantum reference models: standard gate matrices (pytket's own Op.get_unitary, so 'the
identically named tket operation' is literally tket's), pure reference evaluation, a
classical-quantum reference (Kraus-free superoperator algebra on doubled wires built with
kron/matmul only), and an exact simulator of tket command lists."""
import numpy as np

from mc import ref

TOL = 1e-9

TKET = {"H": "H", "S": "S", "T": "T", "X": "X", "Y": "Y", "Z": "Z", "CX": "CX", "CZ": "CZ",
        "SWAP": "SWAP", "Rx": "Rx", "Ry": "Ry", "Rz": "Rz", "CU1": "CU1", "CRz": "CRz", "CRx": "CRx"}


import functools


@functools.lru_cache(maxsize=None)
def _tket_unitary(name, phase):
    from pytket.circuit import Op, OpType
    op = getattr(OpType, TKET[name])
    if phase is None:
        return np.array(Op.create(op).get_unitary(), dtype=complex)
    return np.array(Op.create(op, 2 * phase).get_unitary(), dtype=complex)


def tket_unitary(name, phase=None):
    return _tket_unitary(name, None if phase is None else float(phase)).copy()


def tket_unitary_uncached(name, phase=None):
    """Standard matrix (column-vector convention, qubit 0 most significant) of the tket op
    `name`; rotations take discopy's phase in full turns (tket's half-turn parameter = 2*phase)."""
    from pytket.circuit import Op, OpType
    op = getattr(OpType, TKET[name])
    if phase is None:
        return np.array(Op.create(op).get_unitary(), dtype=complex)
    return np.array(Op.create(op, 2 * float(phase)).get_unitary(), dtype=complex)


def basis(bits):
    v = np.zeros((2 ** len(bits), 1), dtype=complex)
    i = 0
    for b in bits:
        i = 2 * i + int(b)
    v[i, 0] = 1
    return v


def gate_matrix(box):
    """Standard matrix U (out x in) of a *pure* circuit box, from its class/name/phase only --
    never from box.array.  Returns None for boxes this reference does not know."""
    from discopy.quantum import gates, circuit
    if isinstance(box, gates.Ket):
        return basis(box.bitstring)
    if isinstance(box, gates.Bra):
        return basis(box.bitstring).T
    if isinstance(box, circuit.Swap):
        return tket_unitary("SWAP")
    if isinstance(box, gates.Sqrt):
        return np.array([[complex(box.data) ** .5]])
    if isinstance(box, gates.Scalar):
        return np.array([[complex(box.data)]])
    if isinstance(box, gates.Controlled):
        inner = gate_matrix(box.controlled)
        if inner is None:
            return None
        n = inner.shape[0]
        u = np.eye(2 * n, dtype=complex)
        u[n:, n:] = inner
        return u
    if isinstance(box, gates.Rotation):
        u = tket_unitary(type(box).__name__, box.phase)
        return u
    if isinstance(box, gates.QuantumGate):
        name = box._name
        if name not in TKET:
            # a user-defined gate: the array the user gave, in [in, out] order; a daggered
            # user gate keeps the array of the gate it is the dagger of
            n = len(box.dom)
            a = np.asarray(box.array, dtype=complex).reshape(2 ** n, 2 ** n).T
            return a.conj().T if box.is_dagger else a
        u = tket_unitary(name)
        return u.conj().T if box.is_dagger else u
    return None


def pure_ref(d):
    """Reference value of a pure circuit as an [in, out] matrix (discopy's array layout)."""
    def mat_of(b, dd, dc):
        u = gate_matrix(b)
        if u is None:
            raise KeyError("no reference matrix for %r" % (b,))
        return u.T
    return ref.ref_eval(d, lambda a: 2, mat_of)


def as_matrix(tensor_or_array, n_in):
    a = np.asarray(getattr(tensor_or_array, "array", tensor_or_array), dtype=complex)
    return a.reshape(2 ** n_in, -1)


def close(a, b, tol=TOL):
    a, b = np.asarray(a, dtype=complex), np.asarray(b, dtype=complex)
    return a.shape == b.shape and bool(np.all(np.abs(a - b) <= tol))


def embed_two_qubit(u, a, b, n):
    """Matrix (out x in) on n qubits of the two-qubit gate u acting with its first wire on
    qubit a and its second wire on qubit b (qubit 0 most significant)."""
    dim = 2 ** n
    full = np.zeros((dim, dim), dtype=complex)
    for col in range(dim):
        bits = [(col >> (n - 1 - q)) & 1 for q in range(n)]
        sub_in = bits[a] * 2 + bits[b]
        for sub_out in range(4):
            amp = u[sub_out, sub_in]
            if amp == 0:
                continue
            out = list(bits)
            out[a], out[b] = sub_out >> 1, sub_out & 1
            row = 0
            for x in out:
                row = 2 * row + x
            full[row, col] += amp
    return full


# ------------------------------------------------------------------ classical-quantum reference

def double(F, n_in, n_out):
    """Doubled [in, out] matrix of a pure map with [in, out] matrix F on qubits: every wire gets
    dimension 4 with index ket*2 + bra;  D[(a,b),(c,d)] = F[a,c] * conj(F[b,d])."""
    F = np.asarray(F, dtype=complex).reshape((2,) * (n_in + n_out))
    T = np.multiply.outer(F, F.conj())      # axes a1..an c1..cm b1..bn d1..dm
    n, m = n_in, n_out
    order = []
    for i in range(n):
        order += [i, n + m + i]                 # a_i, b_i
    for j in range(m):
        order += [n + j, n + m + n + j]         # c_j, d_j
    T = T.transpose(order)
    return T.reshape(4 ** n, 4 ** m)


def classical(G, n_in, n_out):
    """Doubled matrix of a classical map with [in, out] array G on bits (diagonal components
    only: index 0 = |0><0|, 3 = |1><1|)."""
    G = np.asarray(G, dtype=complex).reshape((2,) * (n_in + n_out))
    D = np.zeros((4,) * (n_in + n_out), dtype=complex)
    import itertools
    for idx in itertools.product((0, 1), repeat=n_in + n_out):
        D[tuple(3 * i for i in idx)] = G[idx]
    return D.reshape(4 ** n_in, 4 ** n_out)


def measure_matrix(n, destructive=True, override_bits=False):
    """qubit^n (+ bit^n if override) -> (qubit^n if not destructive) + bit^n."""
    import itertools
    n_in = n * (2 if override_bits else 1)
    n_out = n * (1 if destructive else 2)
    D = np.zeros((4,) * (n_in + n_out), dtype=complex)
    for bits in itertools.product((0, 1), repeat=n):
        diag = tuple(3 * b for b in bits)
        ins = [diag]
        if override_bits:   # any classical value of the overridden bits
            ins = [diag + tuple(3 * o for o in old) for old in itertools.product((0, 1), repeat=n)]
        out = diag if destructive else diag + diag
        for i in ins:
            D[i + out] = 1
    return D.reshape(4 ** n_in, 4 ** n_out)


def discard_matrix(kinds):
    """Discard of the given wires ('bit'/'qubit'): trace / marginal."""
    D = np.zeros((4,) * len(kinds), dtype=complex)
    import itertools
    for bits in itertools.product((0, 1), repeat=len(kinds)):
        D[tuple(3 * b for b in bits)] = 1
    return D.reshape(4 ** len(kinds), 1)


def cq_box_matrix(box):
    """Doubled reference matrix of a circuit box, from its class and parameters."""
    from discopy.quantum import gates, circuit
    n_in, n_out = len(box.dom), len(box.cod)
    if isinstance(box, circuit.Swap):
        return ref.swap_matrix(4, 4)
    if isinstance(box, circuit.Discard):
        return discard_matrix([o.name for o in box.dom.objects])
    if isinstance(box, circuit.MixedState):
        return discard_matrix([o.name for o in box.cod.objects]).T
    if isinstance(box, circuit.Measure):
        return measure_matrix(box.n_qubits, box.destructive, box.override_bits)
    if isinstance(box, circuit.Encode):
        return measure_matrix(box.n_bits, box.constructive, box.reset_bits).T
    if isinstance(box, gates.Scalar):
        s = complex(box.data) ** .5 if isinstance(box, gates.Sqrt) else complex(box.data)
        return np.array([[s if box.is_mixed else abs(s) ** 2]], dtype=complex)
    if isinstance(box, gates.Copy):
        G = np.zeros((2, 2, 2))
        G[0, 0, 0] = G[1, 1, 1] = 1
        return classical(G, 1, 2)
    if isinstance(box, gates.Match):
        G = np.zeros((2, 2, 2))
        G[0, 0, 0] = G[1, 1, 1] = 1
        return classical(G, 2, 1)
    if isinstance(box, gates.Digits):
        v = np.zeros((2,) * len(box.digits))
        v[tuple(box.digits)] = 1
        return classical(v, len(box.digits), 0) if box.is_dagger else classical(v, 0, len(box.digits))
    if isinstance(box, gates.ClassicalGate):
        G = np.asarray(box.array, dtype=complex)
        if box.is_dagger:   # keeps the data of the gate it is the dagger of, laid out [cod..., dom...]
            return classical(G, n_out, n_in).conj().T
        return classical(G, n_in, n_out)
    u = gate_matrix(box)
    if u is None:
        raise KeyError("no CQ reference for %r" % (box,))
    return double(u.T, n_in, n_out)


def cq_ref(d):
    """Reference doubled matrix of a circuit: wires of dimension 4 (ket*2+bra), product over
    layers of I (x) D(box) (x) I."""
    return ref.ref_eval(d, lambda a: 4, lambda b, dd, dc: cq_box_matrix(b))


def to_cqmap_layout(E, dom_kinds, cod_kinds):
    """Reorder the reference doubled matrix into discopy's CQMap array layout: classical wires
    (once), then the conj copies of the quantum wires, then their ket copies -- for dom, then cod.
    Also returns the largest magnitude found on off-diagonal components of classical wires
    (must be 0: bits never carry coherences)."""
    kinds = list(dom_kinds) + list(cod_kinds)
    T = E.reshape((2, 2) * len(kinds))          # per wire: ket axis, bra axis
    leak = 0.0
    # take the diagonal on classical wires
    axes_c, axes_b, axes_k = [[], []], [[], []], [[], []]
    for side, ks, base in ((0, dom_kinds, 0), (1, cod_kinds, len(dom_kinds))):
        for i, kd in enumerate(ks):
            w = base + i
            if kd == "bit":
                axes_c[side].append(w)
            else:
                axes_b[side].append(w)
                axes_k[side].append(w)
    # build the output by explicit indexing (sizes are tiny)
    import itertools
    shape = []
    for side in (0, 1):
        shape += [2] * (len(axes_c[side]) + 2 * len(axes_b[side]))
    A = np.zeros(shape or (1,), dtype=complex)
    n = len(kinds)
    for idx in itertools.product((0, 1), repeat=2 * n):
        kets, bras = idx[0::2], idx[1::2]
        v = T[idx]
        cls = [w for w in range(n) if kinds[w] == "bit"]
        if any(kets[w] != bras[w] for w in cls):
            leak = max(leak, abs(v))
            continue
        out = []
        for side in (0, 1):
            out += [kets[w] for w in axes_c[side]]
            out += [bras[w] for w in axes_b[side]]
            out += [kets[w] for w in axes_k[side]]
        A[tuple(out) or (0,)] = v
    return A, leak


def distribution(E, cod_kinds):
    """For a process with empty domain and all-bit codomain: {bitstring: probability}."""
    import itertools
    n = len(cod_kinds)
    T = E.reshape((4,) * n) if n else E.reshape(())
    out = {}
    for bits in itertools.product((0, 1), repeat=n):
        out[bits] = T[tuple(3 * b for b in bits)] if n else T[()]
    return out


# ------------------------------------------------------------------ ZX reference

HAD = np.array([[1, 1], [1, -1]], dtype=complex) / np.sqrt(2)


def kron_all(ms):
    out = np.eye(1, dtype=complex)
    for m in ms:
        out = np.kron(out, m)
    return out


def z_spider(n_in, n_out, phase):
    """[in, out] matrix of the Z spider: |0..0><0..0| + e^{2 pi i phase} |1..1><1..1|."""
    m = np.zeros((2 ** n_in, 2 ** n_out), dtype=complex)
    m[0, 0] += 1
    m[2 ** n_in - 1, 2 ** n_out - 1] += np.exp(2j * np.pi * float(phase))
    return m


def zx_box_matrix(box):
    """[in, out] matrix of a ZX generator from its textbook definition."""
    from discopy.quantum import zx
    n_in, n_out = len(box.dom), len(box.cod)
    if isinstance(box, zx.Z):
        return z_spider(n_in, n_out, box.phase)
    if isinstance(box, zx.X):
        return kron_all([HAD] * n_in) @ z_spider(n_in, n_out, box.phase) @ kron_all([HAD] * n_out)
    if isinstance(box, zx.Y):
        # Y spider: Z spider conjugated by the Y-basis change (S H on every leg)
        raise KeyError("Y spiders are not part of the reference alphabet")
    if isinstance(box, zx.Had):
        return HAD.copy()
    if isinstance(box, zx.Swap):
        return ref.swap_matrix(2, 2)
    if isinstance(box, zx.Scalar):
        return np.array([[complex(box.data)]])
    raise KeyError("no ZX reference for %r" % (box,))


def zx_ref(d):
    return ref.ref_eval(d, lambda a: 2, lambda b, dd, dc: zx_box_matrix(b))


def proportional(a, b, tol=1e-9):
    """Is a == lam * b for one non-zero scalar lam?  Returns (ok, lam)."""
    a, b = np.asarray(a, dtype=complex), np.asarray(b, dtype=complex)
    if a.shape != b.shape:
        return False, None
    k = np.argmax(np.abs(b))
    if abs(b.flat[k]) < tol:
        return (bool(np.all(np.abs(a) < tol)) and False), None   # reference is zero: not decidable -> not ok
    lam = a.flat[k] / b.flat[k]
    if abs(lam) < tol:
        return False, lam
    return bool(np.all(np.abs(a - lam * b) <= tol * max(1, abs(lam)))), lam
