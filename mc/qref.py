"""Quantum reference models: standard gate matrices (pytket's own Op.get_unitary, so 'the
identically named tket operation' is literally tket's), pure reference evaluation, a
classical-quantum reference (Kraus-free superoperator algebra on doubled wires built with
kron/matmul only), and an exact simulator of tket command lists."""
import numpy as np

from mc import ref

TOL = 1e-9

TKET = {"H": "H", "S": "S", "T": "T", "X": "X", "Y": "Y", "Z": "Z", "CX": "CX", "CZ": "CZ",
        "SWAP": "SWAP", "Rx": "Rx", "Ry": "Ry", "Rz": "Rz", "CU1": "CU1", "CRz": "CRz", "CRx": "CRx"}


def tket_unitary(name, phase=None):
    """Standard matrix (column-vector convention, qubit 0 most significant) of the tket op
    `name`; rotations take discopy's phase in full turns (tket's half-turn parameter = 2*phase)."""
    from pytket.circuit import Op, OpType
    op = getattr(OpType, TKET[name])
    if phase is None:
        return np.array(Op.create(op).get_unitary(), dtype=complex)
    return np.array(Op.create(op, 2 * float(phase)).get_unitary(), dtype=complex)


def basis(bits):
    v = np.zeros((2 ** len(bits), 1), dtype=complex)
    i = 0
    for b in bits:
        i = 2 * i + int(b)
    v[i, 0] = 1
    return v


def gate_matrix(box):
    """Standard matrix U (out x in) of a *pure* circuit box, from its class/name/phase only --
    never from box.array.  Returns None for boxes this reference does not know."""
    from discopy.quantum import gates, circuit
    if isinstance(box, gates.Ket):
        return basis(box.bitstring)
    if isinstance(box, gates.Bra):
        return basis(box.bitstring).T
    if isinstance(box, circuit.Swap):
        return tket_unitary("SWAP")
    if isinstance(box, gates.Sqrt):
        return np.array([[complex(box.data) ** .5]])
    if isinstance(box, gates.Scalar):
        return np.array([[complex(box.data)]])
    if isinstance(box, gates.Controlled):
        inner = gate_matrix(box.controlled)
        if inner is None:
            return None
        n = inner.shape[0]
        u = np.eye(2 * n, dtype=complex)
        u[n:, n:] = inner
        return u
    if isinstance(box, gates.Rotation):
        u = tket_unitary(type(box).__name__, box.phase)
        return u
    if isinstance(box, gates.QuantumGate):
        name = box._name
        if name not in TKET:
            return None
        u = tket_unitary(name)
        return u.conj().T if box.is_dagger else u
    return None


def pure_ref(d):
    """Reference value of a pure circuit as an [in, out] matrix (discopy's array layout)."""
    def mat_of(b, dd, dc):
        u = gate_matrix(b)
        if u is None:
            raise KeyError("no reference matrix for %r" % (b,))
        return u.T
    return ref.ref_eval(d, lambda a: 2, mat_of)


def as_matrix(tensor_or_array, n_in):
    a = np.asarray(getattr(tensor_or_array, "array", tensor_or_array), dtype=complex)
    return a.reshape(2 ** n_in, -1)


def close(a, b, tol=TOL):
    a, b = np.asarray(a, dtype=complex), np.asarray(b, dtype=complex)
    return a.shape == b.shape and bool(np.all(np.abs(a - b) <= tol))


def embed_two_qubit(u, a, b, n):
    """Matrix (out x in) on n qubits of the two-qubit gate u acting with its first wire on
    qubit a and its second wire on qubit b (qubit 0 most significant)."""
    dim = 2 ** n
    full = np.zeros((dim, dim), dtype=complex)
    for col in range(dim):
        bits = [(col >> (n - 1 - q)) & 1 for q in range(n)]
        sub_in = bits[a] * 2 + bits[b]
        for sub_out in range(4):
            amp = u[sub_out, sub_in]
            if amp == 0:
                continue
            out = list(bits)
            out[a], out[b] = sub_out >> 1, sub_out & 1
            row = 0
            for x in out:
                row = 2 * row + x
            full[row, col] += amp
    return full
