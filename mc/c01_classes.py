"""C01 sections for the other diagram classes (cat, tensor, circuit, zx, biclosed, cartesian)."""
CASES = {}


def run(ctx):
    pass
