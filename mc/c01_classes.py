"""C01 sections for the other diagram classes: cat arrows, tensor, circuit, zx, biclosed,
cartesian.  Same OpExplorer idea as mc.c01 with the operation alphabet each class supports; the
invariant is the same reference scan (for cat arrows: the boxes compose from dom to cod)."""
import itertools

from mc import ref, build, pools
from mc.core import Part, pmap, digest, safe, time_limit

CLASSES = ("tensor", "circuit", "zx", "biclosed", "cartesian")


def _sig(kind, params):
    return "C01:%s:%s" % (kind, digest(params))


def cat_scan(a):
    errs = []
    cur = a.dom
    for i, b in enumerate(a.boxes):
        if b.dom != cur:
            errs.append("box %d (%s) has dom %s but the arrow is at %s" % (i, b, b.dom, cur))
            return errs
        cur = b.cod
    if cur != a.cod:
        errs.append("boxes end at %s but cod is %s" % (cur, a.cod))
    return errs


def class_pool(cls):
    rs = [r for r in pools.recipes(cls, 1, 3)]
    return rs[:: max(1, len(rs) // 6)][:6]


def ops_for(d, cls, n_pool):
    n = len(d)
    yield ("dagger",)
    for i in range(-1, n + 2):
        for j in range(-1, n + 2):
            yield ("slice", i, j)
            yield ("rslice", i, j)
        yield ("slice", i, None)
        yield ("slice", None, i)
        yield ("rslice", i, None)
        yield ("rslice", None, i)
    for i in range(n):
        yield ("item", i)
        for j in range(n):
            if i != j:
                yield ("interchange", i, j, False)
                yield ("interchange", i, j, True)
    for left in (False, True):
        yield ("normal_form", left)
    for t in range(8):
        yield ("normalize_step", False, t)
        yield ("foliate_step", t)
    yield ("foliation_flatten",)
    yield ("flatten",)
    for k in range(n_pool):
        for b in ("then", "then_rev", "tensor", "tensor_rev"):
            yield (b, k)
    yield ("self_tensor",)
    yield ("sandwich",)
    if cls in ("tensor", "circuit", "zx") and len(d.cod) <= 3:
        for p in itertools.permutations(range(len(d.cod))):
            yield ("permute", list(p))
    if cls in ("circuit",):
        yield ("init_and_discard",)
        yield ("subs",)
    if cls in ("tensor", "circuit", "zx"):
        yield ("transpose", False)
        yield ("transpose", True)


def apply(d, op, cls, pool_vals):
    name = op[0]
    if name == "dagger":
        return d[::-1]
    if name == "slice":
        return d[op[1]:op[2]]
    if name == "rslice":
        return d[op[1]:op[2]:-1]
    if name == "item":
        return d[op[1]]
    if name == "interchange":
        return d.interchange(op[1], op[2], left=op[3])
    if name == "normal_form":
        with time_limit(10, "normal_form"):
            return d.normal_form(left=op[1])
    if name == "normalize_step":
        return next(itertools.islice(d.normalize(left=op[1]), op[2], None))
    if name == "foliate_step":
        return next(itertools.islice(d.foliate(), op[1], None))
    if name == "foliation_flatten":
        return d.foliation().flatten()
    if name == "flatten":
        return d.flatten()
    if name == "then":
        return d >> pool_vals[op[1]]
    if name == "then_rev":
        return pool_vals[op[1]] >> d
    if name == "tensor":
        return d @ pool_vals[op[1]]
    if name == "tensor_rev":
        return pool_vals[op[1]] @ d
    if name == "self_tensor":
        return d @ d
    if name == "sandwich":
        return d >> d[::-1]
    if name == "permute":
        return d.permute(*op[1])
    if name == "init_and_discard":
        return d.init_and_discard()
    if name == "subs":
        from sympy.abc import phi
        return d.subs(phi, 1)
    if name == "transpose":
        return d.transpose(left=op[1])
    raise ValueError(op)


def check_chain(params):
    """Replay: seed recipe + op chain in one of the classes; scan the final value and every
    diagram built internally during the last op."""
    from mc.c01 import OBS, install_hook
    from discopy import monoidal
    recipe = _norm(params["recipe"])
    cls = recipe[0]
    install_hook()
    d = build.build(recipe)
    pool_vals = [build.build(r) for r in class_pool(cls)]
    ops = [tuple(o) for o in params["ops"]]
    for op in ops[:-1]:
        d = apply(d, op, cls, pool_vals)
    out = []
    OBS.start()
    try:
        v, exc = apply(d, ops[-1], cls, pool_vals), None
    except Exception as e:  # noqa
        v, exc = None, e
    internal = OBS.stop()
    if exc is None and isinstance(v, monoidal.Diagram):
        errs = ref.scan(v)
        if errs:
            out.append((_sig("illtyped", [params["recipe"], params["ops"]]),
                        "[%s] %s on %s is ill-typed: %s" % (cls, ops, build.build(recipe), errs[:3])))
    for e in internal[:1]:
        out.append((_sig("internal", [params["recipe"], params["ops"]]),
                    "[%s] while running %s on %s: %s" % (cls, ops[-1], build.build(recipe), e)))
    params["_exc"] = type(exc).__name__ if exc is not None else None
    params["_val"] = v
    return out


def check_cat(params):
    """cat arrows: every operation chain of length 1 from an arrow of the cat pool."""
    from discopy import cat
    from mc import c02
    a = c02.cat_build(c02._norm(params["recipe"]))
    out, n_ops = [], 0
    others = [c02.cat_build(r) for r in c02.cat_recipes(1)]
    results = []
    n = len(a)
    for i in range(-1, n + 2):
        for j in range(-1, n + 2):
            results.append(("[%d:%d]" % (i, j), lambda i=i, j=j: a[i:j]))
            results.append(("[%d:%d:-1]" % (i, j), lambda i=i, j=j: a[i:j:-1]))
    results.append(("[::-1]", lambda: a[::-1]))
    for o in others:
        results.append((">> %s" % o, lambda o=o: a >> o))
        results.append(("<< %s" % o, lambda o=o: a << o))
    F = cat.Functor(lambda x: x, lambda f: f)
    results.append(("id functor", lambda: F(a)))
    for label, thunk in results:
        n_ops += 1
        try:
            v = thunk()
        except Exception:
            continue
        if isinstance(v, cat.Arrow):
            errs = cat_scan(v)
            if errs:
                out.append((_sig("cat-illtyped", [params["recipe"], label]), "[cat] (%s)%s is ill-typed: %s" % (a, label, errs)))
    params["_n"] = n_ops
    return out


def check_constructors(params):
    """Static constructors of the semantic classes: cups, caps, swaps, spiders, transposes of
    identities -- every type of length <= 3 over the class's atoms."""
    cls = params["cls"]
    k = build.kit(cls)
    atoms = {"tensor": [2, 3], "circuit": ["bit", "qubit"], "zx": [1]}[cls]
    out, n = [], 0
    D = k.Diagram
    for m in range(0, 4):
        for t in itertools.product(atoms, repeat=m):
            ty = k.ty(list(t))
            calls = [("cups(t, t.r)", lambda ty=ty: D.cups(ty, ty.r)), ("caps(t.r, t)", lambda ty=ty: D.caps(ty.r, ty)),
                     ("cups(t.l, t)", lambda ty=ty: D.cups(ty.l, ty)), ("caps(t, t.l)", lambda ty=ty: D.caps(ty, ty.l)),
                     ("id(t).transpose()", lambda ty=ty: D.id(ty).transpose()),
                     ("id(t).transpose(left=True)", lambda ty=ty: D.id(ty).transpose(left=True))]
            for m2 in range(0, 3):
                for t2 in itertools.product(atoms, repeat=m2):
                    ty2 = k.ty(list(t2))
                    if cls == "zx":
                        calls.append(("swap(%d, %d)" % (len(t), len(t2)), lambda a=len(t), b=len(t2): D.swap(a, b)))
                    else:
                        calls.append(("swap(%s, %s)" % (t, t2), lambda ty=ty, ty2=ty2: D.swap(ty, ty2)))
            for label, thunk in calls:
                n += 1
                try:
                    v = thunk()
                except Exception:
                    continue
                errs = ref.scan(v)
                if errs:
                    out.append((_sig("constructor-illtyped", [cls, label, list(t)]),
                                "[%s] %s with t=%s is ill-typed: %s" % (cls, label, t, errs[:2])))
                elif "cups" in label and (len(v.cod) != 0 or len(v.dom) != 2 * len(t)):
                    out.append((_sig("constructor-type", [cls, label, list(t)]), "[%s] %s with t=%s : %s -> %s"
                                % (cls, label, t, v.dom, v.cod)))
                elif "caps" in label and (len(v.dom) != 0 or len(v.cod) != 2 * len(t)):
                    out.append((_sig("constructor-type", [cls, label, list(t)]), "[%s] %s with t=%s : %s -> %s"
                                % (cls, label, t, v.dom, v.cod)))
    params["_n"] = n
    return out


def zoo_derived(v, cls):
    """(label, thunk) for everything derived from one zoo value by unary public operations."""
    from discopy import monoidal
    out = [("itself", lambda: v), ("[::-1]", lambda: v[::-1]), ("[::-1][::-1]", lambda: v[::-1][::-1]),
           (">> dagger", lambda: v >> v[::-1]), ("dagger >>", lambda: v[::-1] >> v), ("@ itself", lambda: v @ v),
           ("@ dagger", lambda: v @ v[::-1]), ("dagger @", lambda: v[::-1] @ v),
           (".dagger()", lambda: v.dagger()), (".dagger().dagger()", lambda: v.dagger().dagger()),
           ("Id(dom) @ v @ Id(cod)", lambda: v.id(v.dom) @ v @ v.id(v.cod)),
           ("Id(cod) @ v[::-1] @ Id(dom)", lambda: v.id(v.cod) @ v[::-1] @ v.id(v.dom)),
           (".normal_form()", lambda: v.normal_form()), (".flatten()", lambda: v.flatten()),
           (".foliation()", lambda: v.foliation()), (".foliation().flatten()", lambda: v.foliation().flatten()),
           (".bubble()", lambda: v.bubble()), (".downgrade()", lambda: v.downgrade()),
           ("(v @ v).normal_form()", lambda: (v @ v >> v[::-1] @ v[::-1]).normal_form()),
           ("[0:1]", lambda: v[0:1]), ("[1:]", lambda: v[1:]), ("[:-1]", lambda: v[:-1]), ("[0]", lambda: v[0])]
    if hasattr(v, "transpose"):
        out += [(".transpose()", lambda: v.transpose()), (".transpose(left=True)", lambda: v.transpose(left=True)),
                (".transpose().transpose(left=True)", lambda: v.transpose().transpose(left=True)),
                ("[::-1].transpose()", lambda: v[::-1].transpose())]
    if hasattr(v, "init_and_discard"):
        out += [(".init_and_discard()", lambda: v.init_and_discard())]
    if hasattr(v, "subs"):
        import sympy
        out += [(".subs(phi, 0.5)", lambda: v.subs(sympy.Symbol("phi"), 0.5))]
    if hasattr(v, "permute") and len(v.cod) == 2:
        out += [(".permute(1, 0)", lambda: v.permute(1, 0))]
    if cls != "cat":
        out += [("interchange over a scalar", lambda: (v @ v.id(v.dom[0:0])).interchange(0, 0))]
    return out


def check_zoo(params):
    """One zoo value (every box constructor x flag variant, composite subclasses): the value and
    everything derived from it by unary operations is well-typed (or the request is refused)."""
    from mc import zoo
    from mc.c01 import OBS, install_hook
    from discopy import monoidal, cat
    cls, expr = params["cls"], params["expr"]
    install_hook()
    v = zoo.value(cls, expr)
    out, n = [], 0
    for label, thunk in zoo_derived(v, cls):
        n += 1
        OBS.start()
        try:
            w, exc = thunk(), None
        except Exception as e:  # noqa
            w, exc = None, e
        internal = OBS.stop()
        errs = []
        if isinstance(w, monoidal.Diagram):
            errs = ref.scan(w)
        elif isinstance(w, cat.Arrow):
            errs = cat_scan(w)
        if errs:
            out.append((_sig("zoo-illtyped", [cls, expr, label]), "[%s] %s %s is ill-typed: %s" % (cls, expr, label, errs[:2])))
        for e in internal[:1]:
            out.append((_sig("zoo-internal", [cls, expr, label]), "[%s] while computing %s %s: %s" % (cls, expr, label, e)))
    params["_n"] = n
    return out


# the same *name* used by atoms of two classes (an adjoint wire n.r is not the plain object 'n', ...)
COLLISIONS = [
    ("rigid", "Box('f', n, n.r)", "monoidal", "Box('g', Ty('n'), Ty('n'))"),
    ("rigid", "Box('f', n, n.l.l)", "monoidal", "Box('g', Ty('n'), Ty('n'))"),
    ("rigid", "Cap(n.r, n)", "monoidal", "Box('g', Ty('n', 'n'), Ty())"),
    ("rigid", "Box('f', s, s @ n.r)", "monoidal", "Box('g', Ty('s', 'n'), Ty('s'))"),
    ("pregroup", "Word('w', n.r @ s)", "monoidal", "Box('g', Ty('n', 's'), Ty())"),
    ("circuit", "H", "monoidal", "Box('g', Ty('qubit'), Ty('qubit'))"),
    ("circuit", "Measure()", "monoidal", "Box('g', Ty('qubit'), Ty('bit'))"),
    ("zx", "Z(1, 2, 0.25)", "monoidal", "Box('g', Ty(1), Ty(1, 1))"),
    ("tensor", "Box('a', Dim(2), Dim(3), [1, 2, 3, 4, 5, 6])", "monoidal", "Box('g', Ty(3), Ty(2))"),
    ("biclosed", "Box('u', Ty(), x << y)", "monoidal", "Box('g', Ty('x'), Ty('y'))"),
    ("rigid", "Box('f', n, n.r)", "pregroup", "Word('w', n, dom=n)"),
    ("rigid", "Box('f', n, n.r)", "tensor", "Box('a', Dim(2), Dim(2), [1, 2, 3, 4])"),
]
MIX_REPS = {"monoidal": [0, 10], "rigid": [1, 8, 16], "pregroup": [1], "tensor": [0, 7, 14], "circuit": [6, 60, 100],
            "zx": [0, 16, 18], "biclosed": [0, 4], "cartesian": [0, 6]}


_REPS = {}


def reps_of(cls):
    """Representatives of a class for the mixing grid: the fixed ones plus the first two values with
    an empty domain and the first two with an empty codomain (composition across classes is only
    possible through the empty type, which all classes share)."""
    if cls not in _REPS:
        from mc import zoo
        ents = zoo.entries(cls)
        out = [ents[i] for i in MIX_REPS[cls]]
        for side in ("dom", "cod"):
            n = 0
            for e in ents:
                if e in out or "ubble" in e or "foliation" in e:
                    continue
                try:
                    v = zoo.value(cls, e)
                except Exception:
                    continue
                if len(getattr(v, side)) == 0 and len(v.dom) + len(v.cod) > 0:
                    out.append(e)
                    n += 1
                    if n == 2:
                        break
        _REPS[cls] = out
    return _REPS[cls]


def check_mix(params):
    """Two values of *different* classes combined with @ and >> (both orders): the request is
    refused or the result is well-typed."""
    from mc import zoo
    from discopy import monoidal
    a = zoo.value(params["cls1"], params["expr1"])
    b = zoo.value(params["cls2"], params["expr2"])
    out, n = [], 0
    for label, thunk in (("a @ b", lambda: a @ b), ("b @ a", lambda: b @ a), ("a >> b", lambda: a >> b), ("b >> a", lambda: b >> a),
                         ("a >> b[::-1]", lambda: a >> b[::-1]), ("a.downgrade() >> b", lambda: a.downgrade() >> b),
                         ("Diagram(a.dom, b.cod, [a, b], [0, 0])", lambda: type(a.id(a.dom))(a.dom, b.cod, [a, b], [0, 0])),
                         ("a >> b (padded)", lambda: a @ a.id(b.dom) >> a.id(a.cod) @ b),
                         ("a.tensor(b, a)", lambda: a.tensor(b, a)), ("a[::-1] @ b", lambda: a[::-1] @ b)):
        n += 1
        try:
            w = thunk()
        except Exception:
            continue
        if isinstance(w, monoidal.Diagram):
            errs = ref.scan(w)
            if errs:
                out.append((_sig("mix-illtyped", [params["cls1"], params["expr1"], params["cls2"], params["expr2"], label]),
                            "a = [%s] %s, b = [%s] %s: %s was accepted and is ill-typed: %s"
                            % (params["cls1"], params["expr1"], params["cls2"], params["expr2"], label, errs[:2])))
    params["_n"] = n
    return out


def _norm(r):
    def t(x):
        return tuple(t(y) for y in x) if isinstance(x, (list, tuple)) else x
    return t(r)


CASES = {"class_chain": safe("C01", check_chain), "cat_ops": safe("C01", check_cat),
         "constructors": safe("C01", check_constructors), "zoo": safe("C01", check_zoo),
         "mix": safe("C01", check_mix)}


def _zoo_worker(shard):
    part = Part()
    for case, params in shard:
        res = CASES[case](params)
        part.count("states")
        part.count("transitions", params.pop("_n", 0))
        part.count(case + "_cases")
        for sig, msg in res:
            part.violation(sig, msg, case, params)
    return part


def _explore(shard):
    part = Part()
    cls, seeds = shard
    pool_vals_n = len(class_pool(cls))
    for recipe in seeds:
        d = build.build(recipe)
        part.count("states")
        errs = ref.scan(d)
        if errs:
            part.violation(_sig("seed-illtyped", recipe), "[%s] universe build of %s ill-typed: %s" % (cls, d, errs[:2]),
                           "class_chain", dict(recipe=recipe, ops=[["slice", None, None]]))
            continue
        stopped = set()
        for op in ops_for(d, cls, pool_vals_n):
            if (op[0],) in stopped:
                continue
            params = dict(recipe=recipe, ops=[list(op)])
            res = CASES["class_chain"](params)
            part.count("transitions")
            exc = params.pop("_exc", None)
            params.pop("_val", None)
            if exc is not None:
                part.count("refused")
                part.note("class_exception_types", "%s:%s" % (cls, exc), cap=80)
                if op[0] in ("normalize_step", "foliate_step"):
                    stopped.add((op[0],))
            for sig, msg in res:
                part.violation(sig, msg, "class_chain", params)
        if len(recipe[2]) >= 1:
            part.seen("nontrivial", repr(recipe))
    return part


def _cat_worker(shard):
    part = Part()
    for recipe in shard:
        params = dict(recipe=recipe)
        res = CASES["cat_ops"](params)
        part.count("states")
        part.count("transitions", params.pop("_n", 0))
        for sig, msg in res:
            part.violation(sig, msg, "cat_ops", params)
    return part


def run(ctx):
    from mc import c02
    plan = []
    for cls in CLASSES:
        seeds = pools.recipes(cls, 2, 3)
        if ctx.quick:
            seeds = [r for r in seeds if len(r[2]) <= 1] + [r for r in seeds if len(r[2]) == 2][::6]
            ctx.cap_hit("class sections: depth-2 seeds of %s every 6th (depth <= 1 complete)" % cls)
        plan.append("%s: %d seeds, chains <= 1" % (cls, len(seeds)))
        for p in pmap(_explore, [(cls, s) for s in build.shards(seeds, 32)]):
            ctx.merge(p)
    cats = c02.cat_recipes(3)
    plan.append("cat: %d arrows" % len(cats))
    for p in pmap(_cat_worker, build.shards(cats, 16)):
        ctx.merge(p)
    for cls in ("tensor", "circuit", "zx"):
        params = dict(cls=cls)
        res = CASES["constructors"](params)
        ctx.count("transitions", params.pop("_n", 0))
        for sig, msg in res:
            ctx.violation(sig, msg, "constructors", params)
    plan.append("cups/caps/swaps/transposes of all types of length <= 3 in tensor, circuit, zx")
    from mc import zoo
    items = [("zoo", dict(cls=cls, expr=e)) for cls in zoo.CLASSES for e in zoo.entries(cls)]
    nzoo = len(items)
    for c1 in MIX_REPS:
        for c2 in MIX_REPS:
            if c1 == c2:
                continue
            e1s = zoo.entries(c1) if not ctx.quick else reps_of(c1)
            e2s = reps_of(c2)
            for e1 in e1s:
                for e2 in e2s:
                    items.append(("mix", dict(cls1=c1, expr1=e1, cls2=c2, expr2=e2)))
    for c1, e1, c2, e2 in COLLISIONS:
        items.append(("mix", dict(cls1=c1, expr1=e1, cls2=c2, expr2=e2)))
        items.append(("mix", dict(cls1=c2, expr1=e2, cls2=c1, expr2=e1)))
    for p in pmap(_zoo_worker, build.shards(items, 64)):
        ctx.merge(p)
    plan.append("zoo: %d box constructors / flag variants / composite subclasses x %d derived values; "
                "%d cross-class combinations" % (nzoo, 30, len(items) - nzoo))
    ctx.bounds["class_sections"] = plan
