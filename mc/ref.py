"""Reference readers and models.  Everything here is independent of discopy's own arithmetic:
it reads only public attributes (dom, cod, boxes, offsets, layers, name, z, is_dagger, data)
and recomputes everything else over plain Python tuples.

Pure-data model of a diagram ("M-diagram"):
    dom    : tuple of atoms          (an atom is any hashable, e.g. 'x' or ('n', 1))
    layers : tuple of (box, off)     box = (name, dom_atoms, cod_atoms)
"""
import itertools

import numpy as np


# ------------------------------------------------------------------ reading discopy values

def ob_key(o):
    z = getattr(o, "z", 0)
    return (o.name, z) if z else o.name


def ty_key(t):
    return tuple(ob_key(o) for o in t.objects)


def _data_key(data):
    if data is None:
        return None
    if hasattr(data, "tolist"):
        return repr(data.tolist())
    return repr(data)


def box_key(b):
    """Structural key of a box: class kind, name, types, dagger flag, payload."""
    if not hasattr(b, "name"):  # a diagram used as a box (foliation slices)
        return (type(b).__name__, "<diagram>", ty_key(b.dom), ty_key(b.cod), False,
                repr(diagram_key(b)))
    return (type(b).__name__, str(b.name) if not isinstance(b.name, str) else b.name,
            ty_key(b.dom), ty_key(b.cod), bool(getattr(b, "is_dagger", False)),
            _data_key(getattr(b, "data", None)))


def snapshot(v):
    """Everything observable about a value (class, types, boxes with payloads and stored arrays,
    offsets; terms of a sum), as plain data -- taken before an operation and compared after it:
    an operation returns a new value and leaves its operands as they were."""
    from discopy import cat, monoidal
    if isinstance(v, cat.Sum):
        return ("Sum", type(v).__name__, tuple(snapshot(t) for t in v.terms))
    if isinstance(v, monoidal.Diagram):
        extra = tuple(_data_key(getattr(b, "_array", None)) for b in v.boxes)
        return (type(v).__name__, diagram_key(v), extra)
    if isinstance(v, cat.Arrow):
        return (type(v).__name__, repr(v.dom), repr(v.cod),
                tuple((str(b.name), repr(b.dom), repr(b.cod), bool(b.is_dagger), _data_key(b.data)) for b in v.boxes))
    return repr(v)


def bname(b):
    return str(getattr(b, "name", "<diagram>"))


def diagram_key(d):
    return (ty_key(d.dom), ty_key(d.cod),
            tuple((box_key(b), o) for b, o in zip(d.boxes, d.offsets)))


def scan(d, check_layers=True):
    """Well-typedness of a monoidal-style diagram (C01).  Returns a list of error strings
    (empty = well-typed).  Reads boxes/offsets from dom and must reach cod; each box must find
    its dom at its offset; the layers view must agree with that reading."""
    errs = []
    try:
        boxes, offsets = list(d.boxes), list(d.offsets)
        cur = list(ty_key(d.dom))
        cod = list(ty_key(d.cod))
    except Exception as e:  # pragma: no cover
        return ["unreadable diagram: %r" % (e,)]
    if len(boxes) != len(offsets):
        return ["len(boxes)=%d != len(offsets)=%d" % (len(boxes), len(offsets))]
    lay = None
    if check_layers:
        try:
            lay = list(d.layers.boxes)
            if len(lay) != len(boxes):
                errs.append("len(layers)=%d != len(boxes)=%d" % (len(lay), len(boxes)))
                lay = None
            else:
                if list(ty_key(d.layers.dom)) != cur:
                    errs.append("layers.dom %r != dom %r" % (ty_key(d.layers.dom), tuple(cur)))
                if list(ty_key(d.layers.cod)) != cod:
                    errs.append("layers.cod %r != cod %r" % (ty_key(d.layers.cod), tuple(cod)))
        except Exception as e:
            errs.append("unreadable layers: %r" % (e,))
            lay = None
    for i, (b, off) in enumerate(zip(boxes, offsets)):
        if not isinstance(off, int):  # bool is an int in Python: True == 1 is a legal offset
            errs.append("offset[%d]=%r is not an int" % (i, off))
            return errs
        bd, bc = list(ty_key(b.dom)), list(ty_key(b.cod))
        if off < 0 or off + len(bd) > len(cur):
            errs.append("box %d (%s) at offset %d does not fit in %d wires"
                        % (i, bname(b), off, len(cur)))
            return errs
        if cur[off:off + len(bd)] != bd:
            errs.append("box %d (%s) dom %r not found at offset %d of %r"
                        % (i, bname(b), tuple(bd), off, tuple(cur)))
            return errs
        if lay is not None:
            try:
                left, lbox, right = lay[i]
                if list(ty_key(left)) != cur[:off]:
                    errs.append("layer %d left %r != scan left %r"
                                % (i, ty_key(left), tuple(cur[:off])))
                if list(ty_key(right)) != cur[off + len(bd):]:
                    errs.append("layer %d right %r != scan right %r"
                                % (i, ty_key(right), tuple(cur[off + len(bd):])))
                if lbox is not b and box_key(lbox) != box_key(b):
                    errs.append("layer %d box %r != boxes[%d] %r"
                                % (i, box_key(lbox), i, box_key(b)))
                if list(ty_key(lay[i].dom)) != cur:
                    errs.append("layer %d dom %r != scan %r"
                                % (i, ty_key(lay[i].dom), tuple(cur)))
            except Exception as e:
                errs.append("layer %d unreadable: %r" % (i, e))
        cur = cur[:off] + bc + cur[off + len(bd):]
        if lay is not None:
            try:
                if list(ty_key(lay[i].cod)) != cur:
                    errs.append("layer %d cod %r != scan %r"
                                % (i, ty_key(lay[i].cod), tuple(cur)))
            except Exception as e:
                errs.append("layer %d unreadable: %r" % (i, e))
    if cur != cod:
        errs.append("scan ends at %r but cod is %r" % (tuple(cur), tuple(cod)))
    return errs


def to_model(d, name_of=None):
    """M-diagram of a discopy diagram."""
    name_of = name_of or box_key
    return (ty_key(d.dom), tuple(((name_of(b), ty_key(b.dom), ty_key(b.cod)), o)
                                 for b, o in zip(d.boxes, d.offsets)))


# ------------------------------------------------------------------ M-diagram operations

def m_types(m):
    """List of wire tuples before each layer, plus the final one (None if ill-typed)."""
    dom, layers = m
    cur, out = tuple(dom), [tuple(dom)]
    for (name, bd, bc), off in layers:
        if off < 0 or cur[off:off + len(bd)] != tuple(bd) or off + len(bd) > len(cur):
            return None
        cur = cur[:off] + tuple(bc) + cur[off + len(bd):]
        out.append(cur)
    return out


def m_cod(m):
    return m_types(m)[-1]


def legal_moves(m, i):
    """All results of exchanging layers i, i+1 by one instance of the interchange axiom,
    found by brute force over the shape of the axiom, not by offset inequalities.

    Returns a list of (pattern, successor) with pattern in {'A-left', 'A-right'} where
    A is the upper box (layer i)."""
    dom, layers = m
    types = m_types(m)
    S = types[i]
    (A, offA), (B, offB) = layers[i], layers[i + 1]
    _, dA, cA = A
    _, dB, cB = B
    out = []
    n = len(S)
    for l, mid in itertools.product(range(n + 1), range(n + 1)):
        # A left of B:  S = L (x) dom A (x) M (x) dom B (x) R
        if offA == l and offB == l + len(cA) + mid:
            if S[l:l + len(dA)] == tuple(dA) and \
                    S[l + len(dA) + mid:l + len(dA) + mid + len(dB)] == tuple(dB) and \
                    l + len(dA) + mid + len(dB) <= n:
                new = layers[:i] + ((B, l + len(dA) + mid), (A, l)) + layers[i + 2:]
                out.append(("A-left", (dom, new)))
        # A right of B: S = L (x) dom B (x) M (x) dom A (x) R
        if offB == l and offA == l + len(dB) + mid:
            if S[l:l + len(dB)] == tuple(dB) and \
                    S[l + len(dB) + mid:l + len(dB) + mid + len(dA)] == tuple(dA) and \
                    l + len(dB) + mid + len(dA) <= n:
                new = layers[:i] + ((B, l), (A, l + len(cB) + mid)) + layers[i + 2:]
                out.append(("A-right", (dom, new)))
    return out


def wiring(m, transparent=None):
    """Wiring graph of an M-diagram: (frozenset of frozenset({port, port}), number of closed
    loops).  Ports: ('in', k), ('out', k), ((box name, occurrence#), 'd'|'c', k).
    `transparent(name, dom, cod)` returns None for an ordinary box, or a list of pairs
    ((side, k), (side, k)) with side in 'd'/'c' saying how a wire-like box (cup, cap, swap)
    joins its own ports.  Box names should be unique per occurrence where identity matters."""
    dom, layers = m
    parent = []

    def new():
        parent.append(len(parent))
        return len(parent) - 1

    def find(x):
        while parent[x] != x:
            parent[x] = parent[parent[x]]
            x = parent[x]
        return x
    ports = []  # (wire id, port)
    cur = []
    for k in range(len(dom)):
        w = new()
        ports.append((w, ("in", k)))
        cur.append(w)
    occ_count = {}
    for (name, bd, bc), off in layers:
        occ_count[name] = occ_count.get(name, 0) + 1
        occ = (name, occ_count[name])
        ins = cur[off:off + len(bd)]
        outs = [new() for _ in bc]
        glue = transparent(name, bd, bc) if transparent else None
        if glue is None:
            for k, w in enumerate(ins):
                ports.append((w, (occ, "d", k)))
            for k, w in enumerate(outs):
                ports.append((w, (occ, "c", k)))
        else:
            for (s0, k0), (s1, k1) in glue:
                a = ins[k0] if s0 == "d" else outs[k0]
                b = ins[k1] if s1 == "d" else outs[k1]
                parent[find(a)] = find(b)
        cur = cur[:off] + outs + cur[off + len(bd):]
    for k, w in enumerate(cur):
        ports.append((w, ("out", k)))
    classes = {}
    for w in range(len(parent)):
        classes.setdefault(find(w), [])
    for w, p in ports:
        classes[find(w)].append(p)
    edges = frozenset(frozenset(ps) if len(set(ps)) > 1 else frozenset([ps[0], ("self",)])
                      for ps in classes.values() if ps)
    loops = sum(1 for ps in classes.values() if not ps)
    return edges, loops


def box_graph_connected(m):
    """Are all boxes connected to one another through shared wires (C06 precondition)?"""
    dom, layers = m
    n = len(layers)
    if n <= 1:
        return True
    parent = list(range(n))

    def find(x):
        while parent[x] != x:
            parent[x] = parent[parent[x]]
            x = parent[x]
        return x
    cur = [None] * len(dom)
    for i, ((name, bd, bc), off) in enumerate(layers):
        for src in cur[off:off + len(bd)]:
            if src is not None:
                parent[find(src)] = find(i)
        cur = cur[:off] + [i] * len(bc) + cur[off + len(bd):]
    return len({find(i) for i in range(n)}) == 1


# ------------------------------------------------------------------ reference linear algebra

def prod(xs):
    r = 1
    for x in xs:
        r *= x
    return r


def generic_array(tag, rows, cols, seed=0):
    """Deterministic 'generic' Gaussian-integer matrix (exact in complex128)."""
    from mc.core import digest
    s = int(digest("%s/%d" % (tag, seed)), 16) % 97
    k = np.arange(rows * cols)
    re = (7 * k + 13 * s) % 11 - 5
    im = (5 * k + s) % 7 - 3
    return (re + 1j * im).reshape(rows, cols)


def swap_matrix(da, db):
    """|i>|j> -> |j>|i| as a (da*db) x (db*da) matrix, built index by index."""
    m = np.zeros((da * db, db * da), dtype=complex)
    for i in range(da):
        for j in range(db):
            m[i * db + j, j * da + i] = 1
    return m


def cup_matrix(d):
    m = np.zeros((d * d, 1), dtype=complex)
    for i in range(d):
        m[i * d + i, 0] = 1
    return m


def eval_layers(dom_dims, layers):
    """layers: list of (left_dims, matrix, right_dims); returns the composite matrix."""
    result = np.eye(prod(dom_dims), dtype=complex)
    for left, mat, right in layers:
        full = np.kron(np.kron(np.eye(prod(left)), mat), np.eye(prod(right)))
        result = result @ full
    return result


def ref_eval(d, dim_of, mat_of):
    """Reference evaluation of a discopy diagram: product over layers of I (x) M (x) I.
    dim_of(atom key) -> int; mat_of(box, dims_dom, dims_cod) -> matrix."""
    cur = list(ty_key(d.dom))
    dom_dims = [dim_of(a) for a in cur]
    layers = []
    for b, off in zip(d.boxes, d.offsets):
        bd, bc = ty_key(b.dom), ty_key(b.cod)
        dd, dc = [dim_of(a) for a in bd], [dim_of(a) for a in bc]
        mat = mat_of(b, dd, dc)
        layers.append(([dim_of(a) for a in cur[:off]], mat,
                       [dim_of(a) for a in cur[off + len(bd):]]))
        cur = cur[:off] + list(bc) + cur[off + len(bd):]
    return eval_layers(dom_dims, layers)
