"""C10 -- swaps and permutations realise exactly the requested wire permutation.

Space: for each class offering swaps (monoidal, rigid, tensor, circuit, zx): every permutation
of every length up to the bound, on domains with pairwise distinct wire types where the class
allows; every pair (l, r) of widths up to the bound for swap; permute(); every non-permutation
and length mismatch up to length 3 must be refused.
Oracle: label tracer through adjacent swaps (independent of the builder's recursion), type
bookkeeping, C01 scan, and the permutation matrix for classes that can be evaluated.
"""
import itertools

import numpy as np

from mc import ref
from mc.core import Part, pmap, digest

CLASSES = ("monoidal", "rigid", "tensor", "circuit", "zx")


def _sig(kind, params):
    return "C10:%s:%s" % (kind, digest(params))


def class_kit(cls):
    """(Diagram class, Swap class, wire(i) -> type of one wire, distinct?)"""
    if cls == "monoidal":
        from discopy import monoidal as m
        return m.Diagram, m.Swap, lambda i: m.Ty("w%d" % i)
    if cls == "rigid":
        from discopy import rigid as m
        return m.Diagram, m.Swap, lambda i: m.Ty(m.Ob("w%d" % i, z=(i % 3) - 1))
    if cls == "tensor":
        from discopy import tensor as m
        primes = [2, 3, 5, 7, 11, 13, 17, 19, 23, 29, 31, 37]
        return m.Diagram, m.Swap, lambda i: m.Dim(primes[i])
    if cls == "circuit":
        from discopy.quantum import circuit as m
        wires = (m.bit, m.qubit, m.qubit, m.bit, m.Ty(m.Digit(3)), m.Ty(m.Qudit(3)), m.qubit, m.Ty(m.Digit(3)))
        return m.Circuit, m.Swap, lambda i: wires[i % 8]
    if cls == "zx":
        from discopy.quantum import zx as m
        from discopy.rigid import PRO
        return m.Diagram, m.Swap, lambda i: PRO(1)
    raise ValueError(cls)


def ty_of(cls, idxs):
    D, S, wire = class_kit(cls)
    t = wire(0)[0:0]
    for i in idxs:
        t = t @ wire(i)
    return t


def trace(d, n, Swap):
    """Push labels 0..n-1 through the boxes; every box must be an adjacent swap."""
    labels = list(range(n))
    for b, off in zip(d.boxes, d.offsets):
        if not isinstance(b, Swap) or len(b.dom) != 2 or len(b.cod) != 2:
            return None, "box %r is not an adjacent swap" % (b,)
        if not 0 <= off <= len(labels) - 2:
            return None, "swap at offset %r out of range" % (off,)
        if ref.ty_key(b.cod) != ref.ty_key(b.dom)[::-1]:
            return None, "swap %r does not reverse its two wires" % (b,)
        labels[off], labels[off + 1] = labels[off + 1], labels[off]
    return labels, None


def perm_matrix(dims, dest):
    """Matrix of the map sending input wire i to output position dest[i]."""
    n = len(dims)
    out_dims = [None] * n
    for i, p in enumerate(dest):
        out_dims[p] = dims[i]
    rows = int(np.prod(dims)) if dims else 1
    m = np.zeros((rows, rows))
    for idx in itertools.product(*[range(k) for k in dims]):
        out = [None] * n
        for i, p in enumerate(dest):
            out[p] = idx[i]
        r = 0
        for k, v in zip(dims, idx):
            r = r * k + v
        c = 0
        for k, v in zip(out_dims, out):
            c = c * k + v
        m[r, c] = 1
    return m


def evaluate(cls, d, n):
    """(dims, matrix) of the diagram in a class that can be evaluated, else None."""
    from discopy import tensor
    if cls in ("monoidal", "rigid"):
        dims = [2 + (i % 2) for i in range(n)]
        keys = [o.name for o in d.dom.objects]
        F = tensor.Functor(lambda t: dims[keys.index(t.objects[0].name)], {})
        try:
            from discopy import rigid
            if cls == "monoidal":
                return None
            arr = F(d).array
        except Exception as e:  # noqa
            return ("error", e)
        return dims, np.asarray(arr).reshape(int(np.prod(dims)) if dims else 1, -1)
    if cls == "tensor":
        dims = [o.name for o in d.dom.objects]
        if int(np.prod(dims or [1])) > 3000:
            return None
        arr = tensor.Functor(lambda t: t, {})(d).array
        return dims, np.asarray(arr).reshape(int(np.prod(dims)) if dims else 1, -1)
    if cls == "circuit":
        if any(o.name != "qubit" for o in d.dom.objects):
            return None
        dims = [2] * n
        arr = d.eval().array
        return dims, np.asarray(arr).reshape(2 ** n, -1)
    return None


def check_perm(params):
    cls, perm, kind = params["cls"], list(params["perm"]), params.get("kind", "permutation")
    D, Swap, wire = class_kit(cls)
    n = len(perm)
    dom = ty_of(cls, range(n))
    out = []

    def bad(k, msg):
        out.append((_sig(k, params), "%s.%s(%s, %s): %s" % (cls, kind, perm, dom, msg)))
    try:
        if kind == "permutation":
            d = D.permutation(list(perm), dom)
        elif kind == "permutation-default-dom":
            d = D.permutation(list(perm))
            dom = d.dom
        else:
            d = D.id(dom).permute(*perm)
    except Exception as e:  # noqa
        bad("raises", "valid permutation refused with %r" % (e,))
        return out
    errs = ref.scan(d)
    if errs:
        bad("illtyped", "ill-typed result %s" % errs[:2])
        return out
    if ref.ty_key(d.dom) != ref.ty_key(dom):
        bad("dom", "dom is %s" % (d.dom,))
    from discopy import monoidal
    labels, err = trace(d, n, monoidal.Swap)  # any class's swap box counts (class not asserted)
    if err:
        bad("not-swaps", err)
        return out
    want = [None] * n
    for i, p in enumerate(perm):
        want[p] = i
    if labels != want:
        bad("wrong-permutation", "input wires end at %s, requested: wire i at position perm[i] "
            "i.e. outputs carry inputs %s" % (labels, want))
    dk, ck = ref.ty_key(d.dom), ref.ty_key(d.cod)
    if any(ck[perm[i]] != dk[i] for i in range(n)):
        bad("cod", "cod %s is not dom permuted by perm" % (d.cod,))
    if n <= params.get("eval_max", 4) and kind != "permutation-default-dom" and not out:
        ev = evaluate(cls, d, n)
        if ev is not None:
            if ev[0] == "error":
                bad("eval-raises", "evaluation raised %r" % (ev[1],))
            else:
                dims, mat = ev
                if not np.array_equal(mat, perm_matrix(dims, perm)):
                    bad("matrix", "evaluates to a different matrix than the permutation matrix")
    return out


def check_swap(params):
    cls, nl, nr = params["cls"], params["l"], params["r"]
    D, Swap, wire = class_kit(cls)
    left, right = ty_of(cls, range(nl)), ty_of(cls, range(nl, nl + nr))
    n = nl + nr
    out = []

    def bad(k, msg):
        out.append((_sig(k, params), "%s.swap(%s, %s): %s" % (cls, left, right, msg)))
    try:
        if cls == "zx":
            d = D.swap(nl, nr)
        else:
            d = D.swap(left, right)
    except Exception as e:  # noqa
        bad("raises", "refused with %r" % (e,))
        return out
    errs = ref.scan(d)
    if errs:
        bad("illtyped", "ill-typed result %s" % errs[:2])
        return out
    if ref.ty_key(d.dom) != ref.ty_key(left) + ref.ty_key(right):
        bad("dom", "dom is %s, expected left @ right" % (d.dom,))
    if ref.ty_key(d.cod) != ref.ty_key(right) + ref.ty_key(left):
        bad("cod", "cod is %s, expected right @ left" % (d.cod,))
    from discopy import monoidal
    labels, err = trace(d, n, monoidal.Swap)
    if err:
        bad("not-swaps", err)
        return out
    want = list(range(nl, n)) + list(range(nl))
    if labels != want:
        bad("wrong-permutation", "wires end as %s, expected %s" % (labels, want))
    if n <= 4 and not out:
        ev = evaluate(cls, d, n)
        dest = [i + nr for i in range(nl)] + [i for i in range(nr)]
        if ev is not None and ev[0] != "error":
            dims, mat = ev
            if not np.array_equal(mat, perm_matrix(dims, dest)):
                bad("matrix", "evaluates to a different matrix than the block transposition")
    if cls == "tensor" and not out:
        # the tensor-level swap offered by the class (what a functor uses for a Swap box of
        # composite types): the same block transposition, as one matrix
        from discopy.tensor import Tensor
        dims = [o.name for o in (left @ right).objects]
        if int(np.prod(dims or [1])) <= 3000:
            t = Tensor.swap(left, right)
            dest = [i + nr for i in range(nl)] + [i for i in range(nr)]
            if ref.ty_key(t.dom) != ref.ty_key(left) + ref.ty_key(right) or ref.ty_key(t.cod) != ref.ty_key(right) + ref.ty_key(left):
                bad("tensor-swap-type", "Tensor.swap : %s -> %s" % (t.dom, t.cod))
            elif not np.array_equal(np.asarray(t.array).reshape(int(np.prod(dims or [1])), -1), perm_matrix(dims, dest)):
                bad("tensor-swap-matrix", "Tensor.swap(%s, %s) is not the block transposition matrix" % (left, right))
    return out


def check_refusal(params):
    cls, perm, n_dom = params["cls"], list(params["perm"]), params["n_dom"]
    D, Swap, wire = class_kit(cls)
    dom = ty_of(cls, range(n_dom))
    out = []
    try:
        d = D.permutation(list(perm), dom)
    except ValueError:
        return out
    except Exception as e:  # noqa
        out.append((_sig("refusal-type", params),
                    "%s.permutation(%s, %s) must raise ValueError, raised %r" % (cls, perm, dom, e)))
        return out
    out.append((_sig("accepted", params),
                "%s.permutation(%s, %s) must be refused, returned %s" % (cls, perm, dom, d)))
    return out


from mc.core import safe  # noqa: E402
def check_reuse(params):
    """The caller's permutation list is an input, not scratch space: it must be unchanged after
    the call, and calling again with the same list object must give the same diagram."""
    cls, perm = params["cls"], list(params["perm"])
    D, Swap, wire = class_kit(cls)
    dom = ty_of(cls, range(len(perm)))
    out = []
    arg = list(perm)
    first = D.permutation(arg, dom)
    if arg != perm:
        out.append((_sig("argument-mutated", params), "%s.permutation(%s, ...) changed the caller's list to %s"
                    % (cls, perm, arg)))
    second = D.permutation(arg, dom)
    third = D.permutation(list(perm), dom)
    if ref.diagram_key(second) != ref.diagram_key(first) or ref.diagram_key(third) != ref.diagram_key(first):
        out.append((_sig("call-history", params), "%s.permutation(%s, ...) gives different diagrams on repeated calls "
                    "with the same list" % (cls, perm)))
    return out


CASES = {k: safe("C10", f) for k, f in {"perm": check_perm, "swap": check_swap, "refusal": check_refusal, "reuse": check_reuse}.items()}


def _worker(shard):
    part = Part()
    for case, params in shard:
        res = CASES[case](params)
        part.count("transitions")
        part.count("states")
        if case == "perm" and list(params["perm"]) != sorted(params["perm"]):
            inv = [0] * len(params["perm"])
            for i, p in enumerate(params["perm"]):
                inv[p] = i
            if inv != list(params["perm"]):
                part.seen("nontrivial", repr(sorted(params.items())))
        if case == "refusal":
            part.count("refusals_checked")
        for sig, msg in res:
            part.violation(sig, msg, case, params)
        if case == "perm" and len(params["perm"]) == 4 and len(part.samples) < 1:
            part.sample(params)
    return part


def run(ctx):
    nmax = 5 if ctx.quick else 7
    smax = 4 if ctx.quick else 5
    ctx.bounds.update(classes=list(CLASSES), max_perm_length=nmax, max_swap_width=smax,
                      refusal_lists="all lists over -1..3 of length <= 3, all domain lengths <= 3")
    ctx.rule = ("every permutation of length <= %d in every class (permutation, permute, default "
                "dom), every swap(l, r) with |l|,|r| <= %d, every non-permutation / length "
                "mismatch up to length 3; label tracer + types + scan + permutation matrix. "
                "nontrivial = distinct non-involutive permutation cases" % (nmax, smax))
    ctx.assumptions = ["class of the returned diagram is not asserted (not part of C10)",
                       "matrix comparison only for classes/widths that can be evaluated "
                       "(rigid, tensor, all-qubit circuits; n <= 4)"]
    items = []
    for cls in CLASSES:
        for n in range(nmax + 1):
            for perm in itertools.permutations(range(n)):
                if cls == "tensor" and n > 6:
                    continue
                items.append(("perm", dict(cls=cls, perm=list(perm))))
                if n <= 4:
                    items.append(("reuse", dict(cls=cls, perm=list(perm))))
                if n <= 4:
                    items.append(("perm", dict(cls=cls, perm=list(perm), kind="permute")))
                    if cls != "tensor":
                        items.append(("perm", dict(cls=cls, perm=list(perm),
                                                   kind="permutation-default-dom")))
        for l in range(smax + 1):
            for r in range(smax + 1):
                items.append(("swap", dict(cls=cls, l=l, r=r)))
        for m in range(0, 4):
            for p in itertools.product(range(-1, 4), repeat=m):
                for n_dom in range(0, 4):
                    if sorted(p) != list(range(m)) or n_dom != m:
                        items.append(("refusal", dict(cls=cls, perm=list(p), n_dom=n_dom)))
    from mc import build
    for p in pmap(_worker, build.shards(items, 64)):
        ctx.merge(p)
    ctx.counters["traces_validated_against_impl"] = ctx.counters.get("transitions", 0)
