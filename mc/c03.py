"""C03 -- equality is structural, hash-consistent and printable (cat, monoidal, rigid).

Space: per class a pool of types, boxes (payload menu, daggers, cups/caps/swaps), diagrams of
the bounded universe each in several *alternative constructions*, and sums; every value
(reflexivity, repr round trip, box vs wrapped box) and every ordered pair (== iff structurally
equal by the reference reader; symmetry; equal => equal hash, dict lookup, functor lookup).
"""
from mc import ref, build, pools
from mc.core import Part, pmap, digest, safe
from mc import c02

CLASSES = ("cat", "monoidal", "rigid")
PAYLOADS = ["None", "42", "42.0", "True", "0", "[42]", "[]", "{'a': 1}", "(1, 2)", "-1"]
VARIANTS = ("layered", "direct", "resliced", "unit", "ddagger")


def _sig(kind, params):
    return "C03:%s:%s" % (kind, digest(params))


def ns(cls):
    """Names of the class's module; names it does not define itself (rigid has no Sum of its own)
    fall back to the module it extends."""
    import importlib
    out = {}
    for m in {"cat": ("cat",), "monoidal": ("cat", "monoidal"),
              "rigid": ("cat", "monoidal", "rigid")}[cls]:
        out.update(vars(importlib.import_module("discopy." + m)))

    def hashed(v):
        """Hash the value and everything inside it, then hand it back (so later transformations
        start from an object whose hashes were already computed)."""
        for b in getattr(v, "boxes", []):
            hash(b)
        hash(v)
        return v
    out["hashed"] = hashed
    # the objects and types of the *other* free categories: a type may be built from them
    from discopy import cat, monoidal
    out.update(cat_Ob=cat.Ob, MTy=monoidal.Ty, MBox=monoidal.Box)
    return out


# ------------------------------------------------------------------ pool entries

def entries(cls, quick=True):
    """Deterministic list of entries; an entry is ('expr', python expression) or
    ('recipe', recipe, variant)."""
    out = []
    if cls == "cat":
        for o in ("Ob('x')", "Ob('y')", "Ob(1)", "Ob(1.0)", "Ob(True)", "Ob(('a', 2))"):
            out.append(("expr", o))
        for d in PAYLOADS:
            out.append(("expr", "Box('f', Ob('x'), Ob('y'), data=%s)" % d))
        for e in ("Box('f', Ob('x'), Ob('y'))", "Box('f', Ob('y'), Ob('x'))", "Box('g', Ob('x'), Ob('y'))",
                  "Box('f', Ob('x'), Ob('y')).dagger()", "Box('f', Ob('y'), Ob('x')).dagger()",
                  "Box('f', Ob('x'), Ob('x'))", "Box('f', Ob('x'), Ob('x')).dagger()",
                  "Box('f', Ob('x'), Ob('y'), data=42).dagger()",
                  "Arrow(Ob('x'), Ob('y'), [Box('f', Ob('x'), Ob('y'))])",
                  "Id(Ob('x')) >> Box('f', Ob('x'), Ob('y'))",
                  "Id(Ob('x'))", "Id(Ob('y'))", "Arrow(Ob('x'), Ob('x'), [])",
                  "Sum([], Ob('x'), Ob('y'))", "Sum([], Ob('y'), Ob('x'))",
                  "Sum([Box('f', Ob('x'), Ob('y'))])",
                  "Sum([Box('f', Ob('x'), Ob('y')), Box('g', Ob('x'), Ob('y'))])",
                  "Sum([Box('g', Ob('x'), Ob('y')), Box('f', Ob('x'), Ob('y'))])",
                  "Box('f', Ob('x'), Ob('y')) + Box('g', Ob('x'), Ob('y'))",
                  "Sum([Id(Ob('x')) >> Box('f', Ob('x'), Ob('y'))])",
                  "Sum((Box('f', Ob('x'), Ob('y')), Box('g', Ob('x'), Ob('y'))))"):
            out.append(("expr", e))
        for r in c02.cat_recipes(3 if quick else 4):
            out.append(("recipe", r, "layered"))
            if len(r[2]) >= 2:
                out.append(("recipe", r, "resliced"))
                out.append(("recipe", r, "ddagger"))
        return out
    T = "Ty"
    if cls == "monoidal":
        atoms = ["'x'", "'y'", "1", "1.0", "True"]
        tys = ["Ty()"] + ["Ty(%s)" % a for a in atoms] + \
              ["Ty(%s, %s)" % (a, b) for a in atoms[:3] for b in atoms[:3]] + ["PRO(0)", "PRO(1)", "PRO(2)"]
        X, Y = "Ty('x')", "Ty('y')"
    else:
        atoms = ["'n'", "Ob('n', z=1)", "Ob('n', z=-1)", "Ob('n', z=2)", "Ob('n', z=-2)", "'m'", "1", "1.0"]
        tys = ["Ty()"] + ["Ty(%s)" % a for a in atoms] + \
              ["Ty(%s, %s)" % (a, b) for a in atoms[:4] for b in atoms[:4]] + \
              ["Ty('n').r", "Ty('n').l", "Ty('n').r.r", "Ty('n').l.r", "Ty('n', 'm').r", "PRO(2)", "PRO(2).r"]
        X, Y = "Ty('n')", "Ty(Ob('n', z=1))"
    # the same types reached from objects of another class or through the no-argument identity
    if cls == "rigid":
        tys += ["Ty(cat_Ob('n'))", "Ty(*MTy('n', 'm'))", "Ty('n') @ MTy('m')", "Ty(cat_Ob('n'), Ob('n', z=1))",
                "Id().dom", "(Id() @ Box('f', Ty('n'), Ty(Ob('n', z=1)))).cod", "Ty(Ob('n', z=1)) @ Ty()"]
    else:
        tys += ["Ty(cat_Ob('x'))", "Ty(*Ty('x', 'y'))", "Ty('x') @ Ty()", "Id().dom", "(Id() @ Box('f', Ty('x'), Ty('y'))).cod"]
    out += [("expr", t) for t in tys]
    for d in PAYLOADS:
        out.append(("expr", "Box('f', %s, %s, data=%s)" % (X, Y, d)))
        out.append(("expr", "Box('f', %s, %s, data=%s).dagger()" % (Y, X, d)))
    more = ["Box('f', %s, %s)" % (X, Y), "Box('f', %s, %s)" % (Y, X), "Box('g', %s, %s)" % (X, Y),
            "Box('f', %s, %s).dagger()" % (X, Y), "Box('f', %s, %s).dagger()" % (Y, X),
            "Box('f', %s @ %s, %s)" % (X, X, Y), "Box('f', %s, %s)" % (X, X),
            "Box('f', %s, %s).dagger()" % (X, X), "Box('f', Ty(), Ty())", "Box('f', Ty(), Ty()).dagger()",
            "Box(1, %s, %s)" % (X, Y), "Box(1.0, %s, %s)" % (X, Y),
            "Id(%s)" % X, "Id(%s)" % Y, "Id(Ty())", "Id(%s @ %s)" % (X, Y),
            "Diagram(%s, %s, [], [])" % (X, X),
            "Swap(%s, %s)" % (X, Y), "Swap(%s, %s)" % (Y, X), "Swap(%s, %s)" % (X, X),
            "Swap(%s, %s).dagger()" % (X, Y),
            "Id(%s) >> Box('f', %s, %s)" % (X, X, Y),
            "Box('f', %s, %s) @ Id(%s)" % (X, Y, X), "Id(%s) @ Box('f', %s, %s)" % (X, X, Y),
            "Box('f', %s, %s) @ Id(%s)" % (X, Y, Y), "Box('f', %s, %s) @ Id(Ty())" % (X, Y),
            "Diagram(%s, %s, [Box('f', %s, %s)], [0])" % (X, Y, X, Y),
            "Diagram(%s @ %s, %s @ %s, [Box('f', %s, %s)], [0])" % (X, X, Y, X, X, Y),
            "Diagram(%s @ %s, %s @ %s, [Box('f', %s, %s)], [1])" % (X, X, X, Y, X, Y),
            "Sum([], %s, %s)" % (X, Y), "Sum([], %s, %s)" % (Y, X), "Sum([Box('f', %s, %s)])" % (X, Y),
            "Sum([Box('f', %s, %s), Box('g', %s, %s)])" % (X, Y, X, Y),
            "Sum([Box('g', %s, %s), Box('f', %s, %s)])" % (X, Y, X, Y),
            "Box('f', %s, %s) + Box('g', %s, %s)" % (X, Y, X, Y),
            "Sum([Id(%s) >> Box('f', %s, %s)])" % (X, X, Y),
            "Sum([Box('f', %s, %s) @ Id(%s)])" % (X, Y, X),
            "Sum((Box('f', %s, %s), Box('g', %s, %s)))" % (X, Y, X, Y),
            # built on the no-argument identity, and on types made from foreign objects
            "Id() @ Box('f', %s, %s)" % (X, Y), "Id() @ Box('f', %s, %s) @ Box('g', %s, %s)" % (X, Y, X, Y),
            "Box('f', %s, %s) @ Box('g', %s, %s) @ Id()" % (X, Y, X, Y), "Id() >> Id()", "Id() @ Id(%s)" % Y,
            "Diagram(%s @ %s, %s @ %s, [Box('f', %s, %s), Box('g', %s, %s)], [0, 1])" % (X, X, Y, Y, X, Y, X, Y)]
    if cls == "rigid":
        more += ["Box('f', Ty(cat_Ob('n')), Ty(Ob('n', z=1)))", "Box('f', Ty(*MTy('n')), %s)" % Y,
                 "Id() @ Box('f', %s, %s) @ Box('g', %s, %s)" % (Y, X, Y, X)]
    if cls == "rigid":
        N = "Ty('n')"
        more += ["Cup(%s, %s.r)" % (N, N), "Cup(%s.l, %s)" % (N, N), "Cup(%s.r, %s)" % (N, N),
                 "Cap(%s, %s.l)" % (N, N), "Cap(%s.r, %s)" % (N, N), "Cap(%s, %s.r)" % (N, N),
                 "Cup(%s, %s.r).dagger()" % (N, N), "Cap(%s, %s.l).dagger()" % (N, N),
                 "Cup(%s.r, %s.r.r)" % (N, N), "Cap(%s.l.l, %s.l)" % (N, N),
                 "Diagram.cups(%s @ %s, (%s @ %s).r)" % (N, N, N, N),
                 "Diagram.caps(%s @ %s.r, (%s @ %s.r).l)" % (N, N, N, N),
                 "Id(%s).transpose()" % N, "Id(%s).transpose(left=True)" % N,
                 "Box('f', %s, %s.r).transpose()" % (N, N)]
    if cls == "monoidal":
        more += ["Box('f', Ty(1), Ty(1, 1))", "hashed(Box('f', PRO(1), PRO(2))).downgrade()",
                 "Box('f', PRO(1), PRO(2)).downgrade()",
                 "hashed(Box('f', PRO(1), PRO(2)) @ Id(PRO(1))).downgrade()",
                 "Box('f', Ty(1), Ty(1, 1)) @ Id(Ty(1))",
                 "hashed(Box('f', Ty('x'), Ty('y'))).downgrade()", "hashed(Swap(Ty('x'), Ty('y'))).dagger()",
                 "hashed(Box('f', Ty('x'), Ty('y'))).dagger().dagger()",
                 "hashed(Box('f', Ty('x'), Ty('y')) @ Id(Ty('x')))[:1]"]
    else:
        more += ["hashed(Box('f', %s, %s)).dagger().dagger()" % (X, Y), "hashed(Cup(%s, %s)).dagger().dagger()" % (X, Y),
                 "hashed(Box('f', %s, %s) @ Id(%s))[:1]" % (X, Y, X)]
    out += [("expr", e) for e in more]
    for r in pools.recipes(cls, 2, 3):
        out.append(("recipe", r, "layered"))
        n = len(r[2])
        if n >= 1:
            out.append(("recipe", r, "direct"))
        if n >= 2 and (quick is False or hash_mod(r, 3) == 0):
            out.append(("recipe", r, "resliced"))
            out.append(("recipe", r, "unit"))
            out.append(("recipe", r, "ddagger"))
    return out


def hash_mod(obj, k):
    return int(digest(repr(obj)), 16) % k


def make(cls, entry):
    entry = c02._norm(entry)
    if entry[0] == "expr":
        return eval(entry[1], ns(cls))
    _, recipe, variant = entry
    d = c02.make(recipe)
    if variant == "layered":
        return d
    if variant == "direct":
        return type(d)(d.dom, d.cod, d.boxes, d.offsets) if cls != "cat" else type(d)(d.dom, d.cod, d.boxes)
    if variant == "resliced":
        k = len(d) // 2
        return d[:k] >> d[k:]
    if variant == "unit":
        return (d @ d.id(d.dom[0:0])) if cls != "cat" else d >> d.id(d.cod)
    if variant == "ddagger":
        return d[::-1][::-1]
    raise ValueError(variant)


# ------------------------------------------------------------------ reference structural equality

def is_ty(v):
    from discopy import monoidal
    return isinstance(v, monoidal.Ty)


def ob_eq(a, b):
    return bool(a.name == b.name) and getattr(a, "z", 0) == getattr(b, "z", 0)


def ty_eq(a, b):
    oa, ob = a.objects, b.objects
    return len(oa) == len(ob) and all(ob_eq(x, y) for x, y in zip(oa, ob))


def obj_eq(a, b):
    """dom/cod objects: monoidal types or plain cat.Ob."""
    if is_ty(a) != is_ty(b):
        return False
    return ty_eq(a, b) if is_ty(a) else ob_eq(a, b)


def box_eq(a, b):
    from discopy import cat
    if isinstance(a, cat.Sum) or isinstance(b, cat.Sum):
        return isinstance(a, cat.Sum) and isinstance(b, cat.Sum) and ref_eq(a, b)
    return bool(a.name == b.name) and obj_eq(a.dom, b.dom) and obj_eq(a.cod, b.cod) \
        and bool(a.data == b.data) and bool(a.is_dagger) == bool(b.is_dagger)


def kind(v):
    from discopy import cat, monoidal
    if isinstance(v, cat.Sum):
        return "sum"
    if isinstance(v, cat.Arrow):
        return "arrow"
    if isinstance(v, monoidal.Ty):
        return "ty"
    if isinstance(v, cat.Ob):
        return "ob"
    return "other"


def ref_eq(a, b):
    """Same dom, cod, boxes and offsets, however built (Python == on names and payloads)."""
    ka, kb = kind(a), kind(b)
    if ka != kb:
        return False
    if ka == "ty":
        return ty_eq(a, b)
    if ka == "ob":
        return ob_eq(a, b)
    if ka == "sum":
        return obj_eq(a.dom, b.dom) and obj_eq(a.cod, b.cod) and len(a.terms) == len(b.terms) \
            and all(ref_eq(x, y) for x, y in zip(a.terms, b.terms))
    if not (obj_eq(a.dom, b.dom) and obj_eq(a.cod, b.cod)):
        return False
    ba, bb = a.boxes, b.boxes
    if len(ba) != len(bb):
        return False
    if hasattr(a, "offsets") and hasattr(b, "offsets") and list(a.offsets) != list(b.offsets):
        return False
    return all(box_eq(x, y) for x, y in zip(ba, bb))


def type_differences(a, b, path="", out=None):
    """Where two structurally equal values differ in the *Python type* of a leaf (name/payload)
    or in the class used to spell a type: the only legitimate reason for different reprs."""
    out = set() if out is None else out
    ka = kind(a)
    if ka in ("ty",):
        if type(a).__name__ != type(b).__name__:
            out.add("%stype-class:%s-vs-%s" % (path, *sorted((type(a).__name__, type(b).__name__))))
        for x, y in zip(a.objects, b.objects):
            type_differences(x, y, path, out)
    elif ka == "ob":
        if type(a.name) is not type(b.name):
            out.add("%sname:%s-vs-%s" % (path, *sorted((type(a.name).__name__, type(b.name).__name__))))
        if is_ty(a.name) or kind(a.name) == "ob":
            pass
    elif ka == "sum":
        if str(a.name)[:5] != str(b.name)[:5] and {str(a.name)[4:5], str(b.name)[4:5]} == {"(", "["}:
            out.add("%ssum-terms-container:list-vs-tuple" % path)   # Sum((f, g)) vs Sum([f, g])
        type_differences(a.dom, b.dom, path, out)
        type_differences(a.cod, b.cod, path, out)
        for x, y in zip(a.terms, b.terms):
            type_differences(x, y, path + "term.", out)
    elif ka == "arrow":
        type_differences(a.dom, b.dom, path, out)
        type_differences(a.cod, b.cod, path, out)
        for x, y in zip(a.boxes, b.boxes):
            if kind(x) == "sum":
                type_differences(x, y, path + "box.", out)
                continue
            if type(x.name) is not type(y.name):
                out.add("%sbox.name:%s-vs-%s" % (path, *sorted((type(x.name).__name__, type(y.name).__name__))))
            if type(x.data) is not type(y.data):
                out.add("%sbox.data:%s-vs-%s" % (path, *sorted((type(x.data).__name__, type(y.data).__name__))))
            type_differences(x.dom, y.dom, path + "box.", out)
            type_differences(x.cod, y.cod, path + "box.", out)
    return out


# ------------------------------------------------------------------ cases

def check_single(params):
    cls = params["cls"]
    a = make(cls, params["a"])
    out = []

    def bad(k, msg):
        out.append((_sig(k, params), "[%s] %r: %s" % (cls, a, msg)))
    if not (a == a) or (a != a):
        bad("reflexive", "a == a is False")
    try:
        h = hash(a)
        if hash(a) != h:
            bad("hash-unstable", "hash changes between calls")
    except TypeError:
        h = None   # unhashable names/payloads are allowed to be unhashable
        params["_unhashable"] = True
    try:
        back = eval(repr(a), ns(cls))
    except Exception as e:  # noqa
        bad("repr-not-evaluable", "eval(repr(a)) raised %r for repr %s" % (e, repr(a)[:200]))
        back = None
    if back is not None:
        if not (back == a and a == back):
            bad("repr-roundtrip", "eval(repr(a)) = %r != a" % (back,))
        elif not ref_eq(back, a):
            bad("repr-roundtrip-structure", "eval(repr(a)) = %r is == a but structurally different"
                % (back,))
    from discopy import cat
    if isinstance(a, cat.Box) and not isinstance(a, cat.Sum) and kind(a) == "arrow":
        w = a.id(a.dom) >> a if hasattr(a, "id") else cat.Id(a.dom) >> a
        if not (a == w and w == a):
            bad("box-vs-wrapped", "box != Id(dom) >> box (%s, %s)" % (a == w, w == a))
        elif h is not None and hash(w) != h:
            bad("box-vs-wrapped-hash", "box == Id(dom) >> box but hashes differ")
    return out


def check_pair(params):
    cls = params["cls"]
    return pair_core(cls, make(cls, params["a"]), make(cls, params["b"]), params)


def pair_core(cls, a, b, params):
    out = []

    def bad(k, msg, sig=None):
        out.append((sig or _sig(k, params), "[%s] a=%r b=%r: %s" % (cls, a, b, msg)))
    e_ab, e_ba = bool(a == b), bool(b == a)
    want = ref_eq(a, b)
    if e_ab != e_ba:
        bad("asymmetric", "a == b is %s but b == a is %s" % (e_ab, e_ba))
    if bool(a != b) == e_ab:
        bad("ne-inconsistent", "a != b is not the negation of a == b")
    if e_ab != want:
        bad("eq-vs-structure", "a == b is %s but the values are structurally %s"
            % (e_ab, "equal" if want else "different"))
    if e_ab and e_ba:
        params["_equal"] = True
        try:
            ha, hb = hash(a), hash(b)
        except TypeError:
            return out
        if ha != hb:
            diffs = sorted(type_differences(a, b)) if want else []
            if diffs:
                sig = "C03:hash-mismatch:" + "|".join(diffs)
                bad("hash", "equal values with different hashes; they differ only in %s" % diffs, sig)
            else:
                bad("hash-mismatch-same-structure", "equal values, identical structure and leaf "
                    "types, different hashes")
        else:
            if {a: 1}.get(b) != 1:
                bad("dict-lookup", "{a: 1}[b] fails although a == b and hashes agree")
            from discopy import cat
            if isinstance(a, cat.Box) and not isinstance(a, cat.Sum) and isinstance(b, cat.Box) \
                    and not isinstance(b, cat.Sum) and not a.is_dagger and not b.is_dagger:
                # (a dagger functor looks daggered boxes up through their un-daggered form)
                F = cat.Functor(ob={}, ar={a: "image"})
                try:
                    if F(b) != "image":
                        bad("functor-lookup", "Functor(ar={a: img})(b) = %r" % (F(b),))
                except KeyError:
                    bad("functor-lookup", "Functor(ar={a: img})(b) raises KeyError")
    return out


CASES = {k: safe("C03", f) for k, f in {"single": check_single, "pair": check_pair}.items()}


def _worker(shard):
    part = Part()
    for case, params in shard:
        res = CASES[case](params)
        part.count("transitions")
        if params.pop("_equal", False):
            part.count("equal_pairs")
            if params["a"] != params["b"]:
                part.seen("nontrivial", repr((params["a"], params["b"])))
        if params.pop("_unhashable", False):
            part.count("unhashable_values")
        for sig, msg in res:
            part.violation(sig, msg, case, params)
    return part


def _pairs_worker(shard):
    """A block of rows: all pairs (i, j) for i in rows."""
    part = Part()
    cls, rows, E = shard
    V = [make(cls, e) for e in E]   # built once per worker; replay rebuilds from the entries
    core = safe("C03", lambda p: pair_core(cls, V[p["_i"]], V[p["_j"]], p))
    for i in rows:
        for j in range(len(E)):
            params = dict(cls=cls, a=E[i], b=E[j], _i=i, _j=j)
            res = core(params)
            params.pop("_i"), params.pop("_j")
            part.count("transitions")
            if params.pop("_equal", False):
                part.count("equal_pairs")
                if i != j:
                    part.seen("nontrivial", "%s:%d:%d" % (cls, min(i, j), max(i, j)))
            for sig, msg in res:
                part.violation(sig, msg, "pair", params)
        if len(part.samples) < 1:
            part.sample(dict(cls=cls, a=E[i], b=E[(i * 7 + 3) % len(E)]))
    return part


def run(ctx):
    ctx.rule = ("per class (cat, monoidal, rigid): every pool value (reflexivity, stable hash, "
                "eval(repr) round trip, box == wrapped box) and every ordered pair (== iff "
                "structurally equal per the reference reader, symmetry, equal => equal hashes, dict "
                "and functor lookup). nontrivial = distinct unordered pairs of *differently built* "
                "entries that compare equal")
    ctx.assumptions = ["string payloads are excluded (Box(data='abc') recurses in "
                       "recursive_free_symbols -- outside the listed properties)",
                       "cross-class comparisons (rigid vs monoidal values) are not asserted"]
    cap = 450 if ctx.quick else 2500
    for cls in CLASSES:
        E = entries(cls, ctx.quick)
        if len(E) > cap:
            fixed = [e for e in E if e[0] == "expr"]
            rest = [e for e in E if e[0] != "expr"]
            step = max(1, len(rest) // (cap - len(fixed)))
            E = fixed + rest[::step][:cap - len(fixed)]
            ctx.cap_hit("%s pool: %d entries kept by fixed stride (all hand-written entries kept)" % (cls, len(E)))
        ctx.count("states", len(E))
        ctx.note("pool_sizes", "%s=%d" % (cls, len(E)))
        singles = [("single", dict(cls=cls, a=e)) for e in E]
        for p in pmap(_worker, build.shards(singles, 32)):
            ctx.merge(p)
        rows = list(range(len(E)))
        for p in pmap(_pairs_worker, [(cls, r, E) for r in build.shards(rows, 64)]):
            ctx.merge(p)
    ctx.bounds.update(classes=list(CLASSES), payloads=PAYLOADS, variants=list(VARIANTS), pool_cap=cap)
    ctx.counters["traces_validated_against_impl"] = ctx.counters.get("transitions", 0)
