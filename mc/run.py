"""python -m mc.run <ID> [--tier quick|thorough]  (cwd=/verif)."""
import argparse
import importlib
import os
import sys

if os.environ.get("PYTHONHASHSEED") != "0" and __name__ == "__main__":
    # hash randomisation must be off before the interpreter starts: re-exec once
    os.environ["PYTHONHASHSEED"] = "0"
    os.execv(sys.executable, [sys.executable, "-m", "mc.run"] + sys.argv[1:])
for _v in ("OMP_NUM_THREADS", "OPENBLAS_NUM_THREADS", "MKL_NUM_THREADS", "NUMEXPR_NUM_THREADS"):
    os.environ.setdefault(_v, "1")    # 16 worker processes: no nested BLAS thread pools
os.environ.setdefault("MPLBACKEND", "Agg")
os.environ["DISCOPY_VERIF"] = "1"
sys.path.insert(0, os.environ.get("DISCOPY_REPO", "/repo"))


def main(argv=None):
    ap = argparse.ArgumentParser()
    ap.add_argument("pid")
    ap.add_argument("--tier", default=os.environ.get("VERIF_TIER") or "quick",
                    choices=["quick", "thorough"])
    args = ap.parse_args(argv)
    seed = int(os.environ.get("VERIF_SEED", "0") or 0)
    from mc import core
    mod = importlib.import_module("mc." + args.pid.lower())
    ctx = core.Ctx(args.pid.upper(), args.tier, seed)
    mod.run(ctx)
    return ctx.finish(mod)


if __name__ == "__main__":
    sys.exit(main())
