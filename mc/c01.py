"""C01 -- every diagram the library hands back is well-typed; ill-typed requests are refused.

OpExplorer: BFS over *operation chains*.  States are real diagrams identified by a canonical key
read from public attributes; transitions are public API calls with every argument choice;
the invariant (ref.scan: boxes/offsets reach cod, every box finds its dom, the layers view
agrees) is evaluated on every state reached and -- through the DISCOPY_VERIF hook -- on every
diagram constructed *inside* library code while the transition ran.
Negative alphabet: constructor/composition/cup/cap/permutation/interchange requests that are
ill-typed must raise or return something that passes the scan.
"""
import itertools

from mc import ref, build
from mc.core import Part, pmap, digest, time_limit

HORIZON = 24


def _sig(kind, params):
    return "C01:%s:%s" % (kind, digest(params))


# ------------------------------------------------------------------ hook observer

class Observer:
    """Scans every diagram the library constructs internally (via monoidal._verif_hook)."""

    def __init__(self):
        self.errors, self.count, self.active = [], 0, False

    def __call__(self, d):
        if not self.active:
            return
        self.count += 1
        try:
            errs = ref.scan(d)
        except Exception as e:  # partially initialised object: not a verdict
            errs = []
            self.harness = repr(e)
        if errs and len(self.errors) < 5:
            self.errors.append("internal %s(%s -> %s, boxes=%s, offsets=%s): %s" % (
                type(d).__name__, ref.ty_key(d.dom), ref.ty_key(d.cod),
                [ref.bname(b) for b in d.boxes], list(d.offsets), errs[:2]))

    def start(self):
        self.errors, self.active = [], True

    def stop(self):
        self.active = False
        return self.errors


OBS = Observer()


def install_hook():
    from discopy import monoidal
    if getattr(monoidal, "_VERIF", False):
        monoidal._verif_hook = OBS
        return True
    return False


# ------------------------------------------------------------------ operations

def pool_recipes(cls):
    """Small fixed generator pool for binary operations."""
    if cls == "monoidal":
        sig = [("box", "p_x_xy", ("x",), ("x", "y")), ("box", "p_xy_", ("x", "y"), ()),
               ("box", "p__y", (), ("y",)), ("box", "p__", (), ()), ("swap", "x", "y")]
        ids = [(), ("x",), ("y", "x")]
    else:
        sig = [("box", "p_n_nn", ("n",), ("n", "n")), ("cap", "n", "n.l"), ("cup", "n", "n.r"),
               ("box", "p__", (), ()), ("swap", "n", "n.r")]
        ids = [(), ("n",), ("n.r", "n")]
    out = [(cls, t, ()) for t in ids]
    for s in sig:
        out.append((cls, build.spec_io(s)[0], ((s, 0),)))
    return out


_POOLS = {}


def pool(cls):
    if cls not in _POOLS:
        _POOLS[cls] = [build.build(r) for r in pool_recipes(cls)]
    return _POOLS[cls]


def length_changing_functor(cls):
    k = build.kit(cls)
    m = k.m
    if cls == "monoidal":
        ob = {k.ty(["x"]): k.ty(["x", "y"]), k.ty(["y"]): k.ty([])}
    else:
        ob = {k.ty(["n"]): k.ty(["n", "n.r"])}
    F = m.Functor(ob, None)
    F._ar = lambda b: k.Box("F(%s)" % b.name, F(b.dom), F(b.cod))
    return F


def apply_op(d, op, cls):
    """Dispatch one transition.  Returns a value or raises what the library raises."""
    name = op[0]
    k = build.kit(cls)
    if name == "dagger":
        return d[::-1]
    if name == "slice":
        return d[op[1]:op[2]]
    if name == "rslice":
        return d[op[1]:op[2]:-1]
    if name == "item":
        return d[op[1]]
    if name == "interchange":
        return d.interchange(op[1], op[2], left=op[3])
    if name == "normalize_step":
        gen = d.normalize(left=op[1])
        return next(itertools.islice(gen, op[2], None))
    if name == "normal_form":
        with time_limit(10, "normal_form"):
            return d.normal_form(left=op[1])
    if name == "foliate_step":
        return next(itertools.islice(d.foliate(), op[1], None))
    if name == "foliation":
        return d.foliation()
    if name == "foliation_flatten":
        return d.foliation().flatten()
    if name == "flatten":
        return d.flatten()
    if name == "then":
        return d >> pool(cls)[op[1]]
    if name == "then_rev":
        return pool(cls)[op[1]] >> d
    if name == "tensor":
        return d @ pool(cls)[op[1]]
    if name == "tensor_rev":
        return pool(cls)[op[1]] @ d
    if name == "permute":
        return d.permute(*op[1])
    if name == "downgrade":
        return d.downgrade()
    if name == "transpose":
        return d.transpose(left=op[1])
    if name == "idfunctor":
        return k.m.Functor(lambda x: x, lambda f: f)(d)
    if name == "functor2":
        return length_changing_functor(cls)(d)
    if name == "subs":
        from sympy.abc import phi
        return d.subs(phi, 1)
    if name == "self_tensor":
        return d @ d
    if name == "sandwich":
        return d >> d[::-1]
    if name == "then_multi":
        return d.then(pool(cls)[op[1]], pool(cls)[op[2]])
    if name == "tensor_multi":
        return d.tensor(pool(cls)[op[1]], pool(cls)[op[2]])
    if name == "lshift":
        return d << pool(cls)[op[1]]
    if name == "rlshift":
        return pool(cls)[op[1]] << d
    if name == "bubble":
        return d.bubble()
    if name == "open_bubbles":
        return (d.bubble() @ d).bubble().open_bubbles()
    if name == "normal_form_normalizer":
        with time_limit(10, "normal_form"):
            return d.normal_form(normalizer=k.m.Diagram.normalize if cls == "monoidal" else None, left=op[1])
    raise ValueError(op)


def enabled_ops(d, cls, rich=True):
    """Every transition (with every argument choice) enabled in state d."""
    n = len(d)
    yield ("dagger",)
    for i in range(-1, n + 2):
        for j in range(-1, n + 2):
            yield ("slice", i, j)
        yield ("slice", i, None)
        yield ("slice", None, i)
        yield ("rslice", i, None)
        yield ("rslice", None, i)
        for j in range(-1, n + 2):
            yield ("rslice", i, j)
    for i in range(n):
        yield ("item", i)
    for i in range(n):
        for j in range(n):
            if i != j:
                for left in (False, True):
                    yield ("interchange", i, j, left)
    for left in (False, True):
        yield ("normal_form", left)
        for t in range(HORIZON):
            yield ("normalize_step", left, t)
    for t in range(HORIZON):
        yield ("foliate_step", t)
    yield ("foliation",)
    yield ("foliation_flatten",)
    yield ("flatten",)
    yield ("downgrade",)
    yield ("idfunctor",)
    yield ("functor2",)
    yield ("subs",)
    if rich:
        for kk in range(len(pool(cls))):
            for b in ("then", "then_rev", "tensor", "tensor_rev"):
                yield (b, kk)
        if len(d.cod) <= 3:
            for p in itertools.permutations(range(len(d.cod))):
                yield ("permute", list(p))
        yield ("self_tensor",)
        yield ("sandwich",)
        npool = len(pool(cls))
        for a in range(npool):
            yield ("lshift", a)
            yield ("rlshift", a)
            for b in range(npool):
                yield ("then_multi", a, b)
                yield ("tensor_multi", a, b)
        yield ("bubble",)
        yield ("open_bubbles",)
        yield ("normal_form_normalizer", False)
        yield ("normal_form_normalizer", True)
        if cls == "rigid":
            yield ("transpose", False)
            yield ("transpose", True)


STOP_OPS = {"normalize_step", "foliate_step"}


def fingerprint(d):
    """Cheap identity of what a diagram holds (which box objects, at which offsets, between which
    types): an operation must leave the diagram it is applied to as it was."""
    return (tuple(map(id, d.boxes)), tuple(d.offsets), ref.ty_key(d.dom), ref.ty_key(d.cod))


def state_key(v):
    return (type(v).__module__ + "." + type(v).__name__, ref.diagram_key(v))


def check_value(v):
    """Invariant on a returned value (diagram or list of diagrams)."""
    from discopy import monoidal
    if isinstance(v, monoidal.Diagram):
        return ref.scan(v)
    return []


def run_chain(params):  # noqa: C901
    """Replay: rebuild the seed, apply the op chain, scan the final value and everything the
    library constructed internally during the last op."""
    recipe = _norm(params["recipe"])
    cls = recipe[0]
    install_hook()
    d = build.build(recipe)
    ops = [tuple(_l2t(o)) for o in params["ops"]]
    for op in ops[:-1]:
        d = apply_op(d, op, cls)
    out = []
    before = fingerprint(d)
    OBS.start()
    try:
        v, exc = apply_op(d, ops[-1], cls), None
    except Exception as e:  # noqa
        v, exc = None, e
    internal = OBS.stop()
    if fingerprint(d) != before:
        out.append((_sig("operand-mutated", [params["recipe"], params["ops"]]),
                    "%s changed the diagram it was applied to (%s after %s)" % (ops[-1], build.build(recipe), ops[:-1])))
    if exc is None:
        errs = check_value(v)
        if errs:
            out.append((_sig("illtyped", [params["recipe"], params["ops"]]),
                        "%s after %s on %s is ill-typed: %s" % (ops[-1], ops[:-1], build.build(recipe),
                                                               errs[:3])))
    for e in internal:
        out.append((_sig("internal", [params["recipe"], params["ops"]]),
                    "while running %s on %s (after %s): %s" % (ops[-1], build.build(recipe), ops[:-1], e)))
        break
    params["_result"] = (v, exc)
    return out


def _l2t(o):
    return [x for x in o]


def _norm(recipe):
    def t(x):
        return tuple(t(y) for y in x) if isinstance(x, (list, tuple)) else x
    return (recipe[0], t(recipe[1]), tuple((t(s), o) for s, o in recipe[2]))


# ------------------------------------------------------------------ negative alphabet

def negative_requests(params):
    """Ill-typed requests around one seed diagram: each must raise, or return a value that
    passes the scan."""
    recipe = _norm(params["recipe"])
    cls = recipe[0]
    k = build.kit(cls)
    d = build.build(recipe)
    out, tried = [], 0
    width = max([len(d.dom)] + [len(t) for t in ref.m_types(ref.to_model(d))])

    def attempt(label, thunk):
        nonlocal tried
        tried += 1
        try:
            v = thunk()
        except Exception:
            return
        from discopy import monoidal
        vals = v if isinstance(v, (list, tuple)) else [v]
        for x in vals:
            if isinstance(x, monoidal.Diagram):
                errs = ref.scan(x)
                if errs:
                    out.append((_sig("accepted-illtyped", [params["recipe"], label]),
                                "%s on %s was accepted and returned an ill-typed diagram: %s"
                                % (label, d, errs[:3])))
    boxes, offsets = d.boxes, d.offsets
    bad_offs = list(range(-2, width + 3)) + [True, False]
    for i in range(len(boxes)):
        for off in bad_offs:
            offs = offsets[:i] + [off] + offsets[i + 1:]
            attempt("Diagram(dom, cod, boxes, offsets[%d]:=%r)" % (i, off),
                    lambda offs=offs: k.Diagram(d.dom, d.cod, boxes, offs))
    # a new box with empty dom/cod appended at every offset, with cod adjusted or not
    for spec in (("box", "z_", (), ()), ("box", "z_a", (), (recipe[1][:1] or ("x",))[:1])):
        try:
            b = k.box(spec)
        except Exception:
            continue
        for off in bad_offs:
            attempt("append %s at offset %r (cod unchanged)" % (spec[1], off),
                    lambda off=off: k.Diagram(d.dom, d.cod, boxes + [b], offsets + [off]))
            if isinstance(off, int) and not isinstance(off, bool):
                attempt("append %s at offset %r (cod spliced)" % (spec[1], off),
                        lambda off=off: k.Diagram(d.dom, d.cod[:max(off, 0)] @ b.cod @ d.cod[max(off, 0):],
                                                  boxes + [b], offsets + [off]))
    attempt("wrong cod", lambda: k.Diagram(d.dom, d.cod @ d.cod[:1] if len(d.cod) else k.ty(
        recipe[1][:1] or ["x"]), boxes, offsets))
    attempt("wrong dom", lambda: k.Diagram(d.dom[1:], d.cod, boxes, offsets) if len(d.dom)
            else k.Diagram(d.cod[:1] @ d.dom, d.cod, boxes, offsets) if len(d.cod) else 1 / 0)
    attempt("len mismatch", lambda: k.Diagram(d.dom, d.cod, boxes, offsets + [0]))
    for g in pool(cls):
        if ref.ty_key(d.cod) != ref.ty_key(g.dom):
            attempt(">> non-composable %s" % g, lambda g=g: d >> g)
        if ref.ty_key(g.cod) != ref.ty_key(d.dom):
            attempt("<< non-composable %s" % g, lambda g=g: g >> d)
    for i in (-2, -1, len(d), len(d) + 1):
        for j in range(-1, len(d) + 1):
            attempt("interchange(%d,%d)" % (i, j), lambda i=i, j=j: d.interchange(i, j))
            attempt("interchange(%d,%d)" % (j, i), lambda i=i, j=j: d.interchange(j, i))
    for other in (None, 1, "x", d.dom):
        if other is not None:
            attempt("tensor with %r" % (other,), lambda other=other: d @ other)
            attempt("then with %r" % (other,), lambda other=other: d >> other)
    n = len(d.cod)
    for m in range(0, 4):
        for p in itertools.product(range(-1, 4), repeat=m):
            if sorted(p) != list(range(m)) or m != n:
                attempt("permute%r" % (p,), lambda p=p: d.permute(*p))
    params["_tried"] = tried
    return out


def negative_static(params):
    """Class-level ill-typed requests (cups/caps of non-adjoints, swaps of long types, non-
    permutations) -- independent of a seed diagram."""
    cls = params["cls"]
    k = build.kit(cls)
    out, tried = [], 0
    from discopy import monoidal

    def attempt(label, thunk):
        nonlocal tried
        tried += 1
        try:
            v = thunk()
        except Exception:
            return
        if isinstance(v, monoidal.Diagram):
            errs = ref.scan(v)
            if errs:
                out.append((_sig("accepted-illtyped-static", [cls, label]),
                            "%s was accepted and returned an ill-typed diagram: %s" % (label, errs[:3])))
    atoms = ["x", "y"] if cls == "monoidal" else ["n.l.l", "n.l", "n", "n.r", "n.r.r", "m"]
    tys = build.all_types(atoms[:3] if cls == "monoidal" else ["n.l", "n", "n.r", "m"], 2)
    if cls == "rigid":
        for a in atoms:
            for b in atoms:
                attempt("Cup(%s,%s)" % (a, b), lambda a=a, b=b: k.Cup(k.ty([a]), k.ty([b])))
                attempt("Cap(%s,%s)" % (a, b), lambda a=a, b=b: k.Cap(k.ty([a]), k.ty([b])))
        for l in tys:
            for r in tys:
                attempt("cups(%s,%s)" % (l, r), lambda l=l, r=r: k.Diagram.cups(k.ty(l), k.ty(r)))
                attempt("caps(%s,%s)" % (l, r), lambda l=l, r=r: k.Diagram.caps(k.ty(l), k.ty(r)))
    if cls == "rigid":
        D = k.Diagram
        small = build.all_types(["n", "m.r", "p.l"], 2)
        for l in small:
            for r in small:
                L, R = k.ty(l), k.ty(r)
                attempt("fa(%s,%s)" % (l, r), lambda L=L, R=R: D.fa(L, R))
                attempt("ba(%s,%s)" % (l, r), lambda L=L, R=R: D.ba(L, R))
                for mid in small[:7]:
                    M = k.ty(mid)
                    for nm in ("fc", "bc", "fx", "bx"):
                        attempt("%s(%s,%s,%s)" % (nm, l, mid, r), lambda L=L, M=M, R=R, nm=nm: getattr(D, nm)(L, M, R))
        for r in pool_recipes("rigid") + [("rigid", ("n", "m"), ((("box", "f", ("n", "m"), ("p",)), 0),)),
                                          ("rigid", ("n", "m", "p"), ((("box", "g", ("m", "p"), ("n", "n")), 1),))]:
            d = build.build(r)
            for nw in range(0, 4):
                for left in (False, True):
                    attempt("curry(%s, %d, left=%s)" % (d, nw, left), lambda d=d, nw=nw, left=left: D.curry(d, nw, left))
    for l in tys:
        for r in tys:
            attempt("Swap(%s,%s)" % (l, r), lambda l=l, r=r: k.Swap(k.ty(l), k.ty(r)))
            attempt("swap(%s,%s)" % (l, r), lambda l=l, r=r: k.Diagram.swap(k.ty(l), k.ty(r)))
    for m in range(0, 4):
        for p in itertools.product(range(-1, 4), repeat=m):
            for t in tys + build.all_types(atoms[:2], 3)[-8:]:
                attempt("permutation(%r, %s)" % (list(p), t),
                        lambda p=p, t=t: k.Diagram.permutation(list(p), k.ty(t)))
    params["_tried"] = tried
    return out


from mc.core import safe  # noqa: E402
CASES = {k: safe("C01", f) for k, f in {"chain": run_chain, "negative": negative_requests,
                                        "negative_static": negative_static}.items()}


# ------------------------------------------------------------------ explorer

def _explore(shard):
    """BFS over op chains from each seed of the shard up to the chain bound."""
    part = Part()
    cls, chain_bound, seeds = shard
    hooked = install_hook()
    if not hooked:
        part.note("hook", "DISCOPY_VERIF hook not available: internal diagrams not observed")
    for recipe in seeds:
        d0 = build.build(recipe)
        seen = {state_key(d0)}
        part.count("states")
        errs = ref.scan(d0)
        if errs:
            part.violation(_sig("seed-illtyped", recipe), "universe build of %s ill-typed: %s"
                           % (d0, errs[:2]), "chain", dict(recipe=recipe, ops=[["slice", None, None]]))
        frontier = [((), d0)]
        for depth in range(chain_bound):
            nxt = []
            for chain, d in frontier:
                stopped = set()
                for op in enabled_ops(d, cls, rich=(depth == 0)):
                    if (op[0], op[1] if len(op) > 2 else None) in stopped:
                        continue
                    params = dict(recipe=recipe, ops=[list(o) for o in chain + (op,)])
                    before = fingerprint(d)
                    OBS.start()
                    try:
                        v, exc = apply_op(d, op, cls), None
                    except Exception as e:  # noqa
                        v, exc = None, e
                    internal = OBS.stop()
                    part.count("transitions")
                    if fingerprint(d) != before:
                        part.violation(_sig("operand-mutated", [recipe, params["ops"]]),
                                       "%s changed the diagram it was applied to (%s reached by %s from %s)"
                                       % (op, d, list(chain), d0), "chain", params)
                    part.count("internal_diagrams_scanned", OBS.count)
                    OBS.count = 0
                    for e in internal[:1]:
                        part.violation(_sig("internal", [recipe, params["ops"]]),
                                       "while running %s on %s: %s" % (op, d, e), "chain", params)
                    if exc is not None:
                        part.count("refused")
                        part.note("exception_types", type(exc).__name__)
                        if op[0] in STOP_OPS:  # generator exhausted: later steps do not exist
                            stopped.add((op[0], op[1] if len(op) > 2 else None))
                        continue
                    from discopy import monoidal
                    if not isinstance(v, monoidal.Diagram):
                        part.count("non_diagram_results")
                        continue
                    errs = ref.scan(v)
                    if errs:
                        part.violation(_sig("illtyped", [recipe, params["ops"]]),
                                       "%s on %s (reached by %s from %s) returned an ill-typed "
                                       "diagram: %s" % (op, d, list(chain), d0, errs[:3]),
                                       "chain", params)
                        continue
                    key = state_key(v)
                    part.note("ops_seen", op[0], cap=60)
                    if key not in seen:
                        seen.add(key)
                        part.count("states")
                        if len(v) <= 6:
                            nxt.append((chain + (op,), v))
                        if len(part.samples) < 3 and depth == 1:
                            part.sample(dict(seed=recipe, ops=params["ops"], result=str(v)))
            frontier = nxt
        if len(recipe[2]) >= 1:
            part.seen("nontrivial", repr(recipe))
    return part


def _negative(shard):
    part = Part()
    cls, seeds = shard
    for recipe in seeds:
        params = dict(recipe=recipe)
        res = CASES["negative"](params)
        part.count("negative_requests", params.pop("_tried", 0))
        for sig, msg in res:
            part.violation(sig, msg, "negative", params)
    return part


def universes(ctx):
    sig_m = [s for s in build.shape_signature(("x", "y"), 1)]
    sig_m += [("box", "sxy_x", ("x", "y"), ("x",)), ("box", "sy_yx", ("y",), ("y", "x")),
              ("box", "sxx_xx", ("x", "x"), ("x", "x")), ("box", "s_xy", (), ("x", "y")),
              ("swap", "x", "y")]
    doms_m = build.all_types(("x", "y"), 2)
    _, sig_r = build.rigid_signature()
    doms_r = [(), ("n",), ("n.r",), ("n", "n.l"), ("n", "n")]
    if ctx.quick:
        plan = [("monoidal", sig_m, doms_m, 2, 3, 1), ("monoidal", sig_m, doms_m, 1, 3, 2),
                ("rigid", sig_r, doms_r, 2, 3, 1), ("rigid", sig_r, doms_r, 1, 3, 2)]
    else:
        plan = [("monoidal", sig_m, doms_m, 3, 3, 1), ("monoidal", sig_m, doms_m, 2, 3, 2),
                ("monoidal", sig_m, doms_m, 1, 4, 3),
                ("rigid", sig_r, doms_r, 3, 3, 1), ("rigid", sig_r, doms_r, 2, 3, 2),
                ("rigid", sig_r, doms_r, 1, 4, 3)]
    ctx.bounds["plan"] = ["%s: seeds depth<=%d width<=%d, chains<=%d" % (c, d, w, ch)
                          for c, _, _, d, w, ch in plan]
    for cls, sig, doms, depth, width, chain in plan:
        yield cls, chain, depth, list(build.universe(cls, sig, doms, depth, width))


def run(ctx):
    ctx.rule = ("BFS over operation chains (slice/dagger/interchange/every normalize & foliate "
                "step/normal_form/foliation/flatten/then/tensor/permute/transpose/functor images/"
                "downgrade/subs) from every seed of the universe; ref.scan on every returned "
                "diagram and, via the DISCOPY_VERIF hook, on every internally constructed one; "
                "negative alphabet of ill-typed requests. nontrivial = distinct seeds with >=1 box")
    ctx.assumptions = ["reference scan in mc/ref.py", "bounds as listed; other diagram classes "
                       "(tensor/circuit/zx/biclosed/cartesian) are scanned in this check only "
                       "through the class sections listed in bounds"]
    from mc import c01_classes
    for cls, chain, depth, seeds in universes(ctx):
        ctx.note("universe_sizes", "%s depth<=%d chain<=%d: %d seeds" % (cls, depth, chain, len(seeds)))
        for p in pmap(_explore, [(cls, chain, s) for s in build.shards(seeds, 64)]):
            ctx.merge(p)
        if chain == 1:
            for p in pmap(_negative, [(cls, s) for s in build.shards(seeds, 32)]):
                ctx.merge(p)
    for cls in ("monoidal", "rigid"):
        params = dict(cls=cls)
        res = CASES["negative_static"](params)
        ctx.count("negative_requests", params.pop("_tried", 0))
        for sig, msg in res:
            ctx.violation(sig, msg, "negative_static", params)
    c01_classes.run(ctx)
    ctx.counters["traces_validated_against_impl"] = ctx.counters.get("transitions", 0)


from mc import c01_classes as _cc  # noqa: E402
CASES.update(_cc.CASES)
