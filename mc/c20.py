"""C20 -- the drawing layout is a faithful planar embedding of the diagram.

Space: every diagram of the shape universe with arities 0..3 (scalars, states, effects, wide
boxes above narrow gaps) up to the depth/width bound; rigid diagrams with cups/caps/swaps,
spiders, bubbles and circuits for the back-end part; function bodies generated from every
depth-<=2 diagram for diagramize.
Oracle: (a) on (graph, positions) = diagram2nx(d): node census, edge set against a replay of the
scan, strictly increasing x of the open wires at every height, vertical wires, downward edges,
boxes strictly between their neighbouring wires; (b) with a recording Backend passed through
draw(backend=...): the polygons and wire segments actually requested -- no wire enters a polygon it
is not attached to, no two straight wire segments cross; (c) both back-ends render without error;
(d) diagramize(function body of d) == d.
"""
import itertools
import os
import tempfile

from mc import ref, build
from mc.core import Part, pmap, digest, safe


def _sig(kind, params):
    return "C20:%s:%s" % (kind, digest(params))


def shape_sig(max_arity=3, max_total=4):
    sig = []
    for i in range(max_arity + 1):
        for j in range(max_arity + 1):
            if i + j <= max_total:
                sig.append(("box", "b%d%d" % (i, j), ("x",) * i, ("x",) * j))
    return sig


def layout_errors(d):
    """Geometry and topology of diagram2nx(d) against a replay of the scan."""
    from discopy.drawing import diagram2nx
    graph, pos = diagram2nx(d)
    errs = []
    by_kind = {}
    for n in graph.nodes:
        by_kind.setdefault(n.kind, []).append(n)
    if set(pos) != set(graph.nodes):
        errs.append("positions are not defined exactly on the nodes of the graph")
        return errs, graph, pos
    inputs = sorted(by_kind.get("input", []), key=lambda n: n.i)
    outputs = sorted(by_kind.get("output", []), key=lambda n: n.i)
    boxes = sorted(by_kind.get("box", []), key=lambda n: n.depth)
    want = dict(input=len(d.dom), output=len(d.cod), box=len(d),
                dom=sum(len(b.dom) for b in d.boxes), cod=sum(len(b.cod) for b in d.boxes))
    got = {k: len(by_kind.get(k, [])) for k in want}
    if got != want or set(by_kind) - set(want):
        errs.append("node census %s (+%s), expected %s" % (got, sorted(set(by_kind) - set(want)), want))
        return errs, graph, pos
    expected_edges = set()
    cur = list(inputs)
    levels = [list(cur)]
    for t, (b, off) in enumerate(zip(d.boxes, d.offsets)):
        node = boxes[t]
        doms = sorted([n for n in graph.predecessors(node) if n.kind == "dom"], key=lambda n: n.i)
        cods = sorted([n for n in graph.successors(node) if n.kind == "cod"], key=lambda n: n.i)
        if len(doms) != len(b.dom) or len(cods) != len(b.cod):
            errs.append("box %d has %d/%d port nodes, expected %d/%d"
                        % (t, len(doms), len(cods), len(b.dom), len(b.cod)))
            return errs, graph, pos
        for i, p in enumerate(doms):
            expected_edges.add((cur[off + i], p))
            expected_edges.add((p, node))
        for p in cods:
            expected_edges.add((node, p))
        # box strictly between its neighbouring open wires
        xs = [pos[p][0] for p in doms + cods] + [pos[node][0]]
        if off > 0 and not pos[cur[off - 1]][0] < min(xs):
            errs.append("box %d (%s) reaches x=%.2f, not right of the wire on its left at x=%.2f"
                        % (t, b.name, min(xs), pos[cur[off - 1]][0]))
        if off + len(b.dom) < len(cur) and not max(xs) < pos[cur[off + len(b.dom)]][0]:
            errs.append("box %d (%s) reaches x=%.2f, not left of the wire on its right at x=%.2f"
                        % (t, b.name, max(xs), pos[cur[off + len(b.dom)]][0]))
        cur = cur[:off] + cods + cur[off + len(b.dom):]
        levels.append(list(cur))
    if len(cur) != len(outputs):
        errs.append("scan ends with %d wires, %d outputs" % (len(cur), len(outputs)))
        return errs, graph, pos
    for i, o in enumerate(outputs):
        expected_edges.add((cur[i], o))
    if set(graph.edges()) != expected_edges:
        errs.append("edges differ from the wiring of the diagram: missing %s, extra %s"
                    % (sorted(map(str, expected_edges - set(graph.edges())))[:2],
                       sorted(map(str, set(graph.edges()) - expected_edges))[:2]))
        return errs, graph, pos
    for t, lev in enumerate(levels):
        xs = [pos[n][0] for n in lev]
        if any(a >= b for a, b in zip(xs, xs[1:])):
            errs.append("open wires after layer %d are not in strictly increasing x order: %s" % (t - 1, xs))
    for (s, tg) in graph.edges():
        if not pos[s][1] > pos[tg][1]:
            errs.append("edge %s -> %s does not point downwards" % (s, tg))
        if s.kind in ("input", "cod") and tg.kind in ("dom", "output") and abs(pos[s][0] - pos[tg][0]) > 1e-9:
            errs.append("wire %s -> %s is not vertical (x %.2f -> %.2f)" % (s, tg, pos[s][0], pos[tg][0]))
    return errs, graph, pos


def make_recorder():
    from discopy.drawing import Backend

    class Recorder(Backend):
        def __init__(self):
            super().__init__()
            self.wires, self.polygons, self.texts = [], [], []

        def draw_wire(self, source, target, bend_out=False, bend_in=False, style=None):
            self.wires.append((tuple(source), tuple(target), bend_out, bend_in))
            super().draw_wire(source, target, bend_out=bend_out, bend_in=bend_in)

        def draw_polygon(self, *points, color="white"):
            self.polygons.append([tuple(p) for p in points])
            super().draw_polygon(*points, color=color)

        def draw_text(self, text, i, j, **params):
            self.texts.append((text, i, j))
            super().draw_text(text, i, j, **params)

        def output(self, path=None, show=True, **params):
            return self
    return Recorder()


def seg_cross(a, b, c, d):
    """Do the open segments ab and cd properly intersect (sharing an endpoint is fine)?"""
    def orient(p, q, r):
        v = (q[0] - p[0]) * (r[1] - p[1]) - (q[1] - p[1]) * (r[0] - p[0])
        return 0 if abs(v) < 1e-12 else (1 if v > 0 else -1)
    if {a, b} & {c, d}:
        return False
    o1, o2, o3, o4 = orient(a, b, c), orient(a, b, d), orient(c, d, a), orient(c, d, b)
    return o1 * o2 < 0 and o3 * o4 < 0


def in_polygon_x(poly, seg):
    """Does the (vertical or straight) segment pass strictly inside the polygon's box region?"""
    xs, ys = [p[0] for p in poly], [p[1] for p in poly]
    x0, x1, y0, y1 = min(xs), max(xs), min(ys), max(ys)
    (ax, ay), (bx, by) = seg
    # sample the segment
    for k in range(1, 10):
        t = k / 10
        x, y = ax + t * (bx - ax), ay + t * (by - ay)
        if x0 + 1e-9 < x < x1 - 1e-9 and y0 + 1e-9 < y < y1 - 1e-9:
            return True
    return False


def check_layout(params):
    d = build.build(norm(params["recipe"]))
    out = []
    if params.get("open"):
        # what draw() lays out for a diagram with bubbles: the walls are special boxes, so only
        # the part of the oracle that does not depend on them -- every node has a position, no
        # port or boundary node dangles, every edge points downwards
        from discopy.drawing import diagram2nx
        graph, pos = diagram2nx(d)          # opens the bubbles itself
        errs = []
        if set(pos) != set(graph.nodes):
            errs.append("positions are not defined exactly on the nodes of the graph")
        for n in graph.nodes:
            if n.kind in ("input", "cod") and graph.out_degree(n) != 1:
                errs.append("%s has %d outgoing wires" % (n, graph.out_degree(n)))
            if n.kind in ("output", "dom") and graph.in_degree(n) != 1:
                errs.append("%s has %d incoming wires" % (n, graph.in_degree(n)))
        for s_, t_ in graph.edges():
            if s_ in pos and t_ in pos and not pos[s_][1] > pos[t_][1]:
                errs.append("edge %s -> %s does not point downwards" % (s_, t_))
        if errs:
            out.append((_sig("layout-open", params), "%s with its bubbles opened: %s" % (d, errs[:3])))
        return out
    errs, graph, pos = layout_errors(d)
    if errs:
        out.append((_sig("layout", params), "%s: %s" % (d, errs[:3])))
        return out
    if not len(d) and not len(d.dom):
        return out          # no wire and no box: nothing to draw (outside the statement)
    rec = make_recorder()
    try:
        d.draw(backend=rec)
    except Exception as e:  # noqa
        out.append((_sig("draw-raises", params), "%s: draw(backend=recorder) raised %s: %s"
                    % (d, type(e).__name__, str(e)[:120])))
        return out
    straight = [(s, t) for s, t, bo, bi in rec.wires if not bo and not bi]
    for (a, b), (c, e) in itertools.combinations(straight, 2):
        if seg_cross(a, b, c, e):
            out.append((_sig("wires-cross", params), "%s: drawn wires %s-%s and %s-%s cross" % (d, a, b, c, e)))
            break
    for poly in rec.polygons:
        for seg in straight:
            if in_polygon_x(poly, seg):
                out.append((_sig("wire-through-box", params), "%s: wire %s passes through the box drawn at %s"
                            % (d, seg, poly)))
                break
        else:
            continue
        break
    if len(rec.polygons) != sum(1 for b in d.boxes if not getattr(b, "draw_as_wires", False)
                                and not getattr(b, "draw_as_spider", False)):
        out.append((_sig("polygon-count", params), "%s: %d polygons drawn for %d boxes" % (d, len(rec.polygons), len(d))))
    return out


def check_render(params):
    """Both back-ends render the diagram without error."""
    cls = params.get("cls", "monoidal")
    d = build.build(norm(params["recipe"]))
    out = []
    if not len(d) and not len(d.dom):
        return out
    nameless = any(not hasattr(b, "name") for b in d.boxes)    # boxes that are diagrams (foliation())

    def sig_of(kind):
        # recorded finding: a diagram whose boxes are themselves diagrams cannot be drawn
        return "C20:render:boxes-are-diagrams" if nameless else _sig(kind, params)
    with tempfile.TemporaryDirectory(prefix="mc_c20_") as tmp:
        try:
            d.draw(to_tikz=True, path=os.path.join(tmp, "d.tikz"))
            txt = open(os.path.join(tmp, "d.tikz")).read()
            if "\\begin{tikzpicture}" not in txt or "\\end{tikzpicture}" not in txt:
                out.append((_sig("tikz-empty", params), "%s: TikZ output is not a tikzpicture" % (d,)))
        except Exception as e:  # noqa
            out.append((sig_of("tikz-raises"), "%s: draw(to_tikz=True) raised %s: %s"
                        % (d, type(e).__name__, str(e)[:120])))
        if params.get("matplotlib", True):
            import matplotlib.pyplot as plt
            try:
                d.draw(path=os.path.join(tmp, "d.png"), show=False)
                if os.path.getsize(os.path.join(tmp, "d.png")) == 0:
                    out.append((_sig("png-empty", params), "%s: empty image" % (d,)))
            except Exception as e:  # noqa
                out.append((sig_of("matplotlib-raises"), "%s: draw() with matplotlib raised %s: %s"
                            % (d, type(e).__name__, str(e)[:120])))
            finally:
                plt.close("all")
    return out


def check_diagramize(params):
    from discopy.drawing import diagramize
    recipe = norm(params["recipe"])
    d = build.build(recipe)
    k = build.kit(recipe[0])
    specs = []
    for spec, off in recipe[2]:
        if spec not in specs:
            specs.append(spec)
    boxes = {spec: k.box(spec) for spec in specs}
    out = []

    def body(*inputs):
        cur = list(inputs)
        for spec, off in recipe[2]:
            b = boxes[spec]
            n = len(b.dom)
            res = b(*cur[off:off + n], offset=off) if n == 0 else b(*cur[off:off + n])
            res = list(res) if isinstance(res, tuple) else ([res] if len(b.cod) == 1 else [])
            cur = cur[:off] + res + cur[off + n:]
        return tuple(cur) if len(cur) != 1 else cur[0]
    try:
        got = diagramize(dom=d.dom, cod=d.cod, boxes=list(boxes.values()), id_factory=k.Id)(body)
    except Exception as e:  # noqa
        out.append((_sig("diagramize-raises", params), "diagramize of the body of %s raised %s: %s"
                    % (d, type(e).__name__, str(e)[:120])))
        return out
    if ref.diagram_key(got) != ref.diagram_key(d) or ref.scan(got):
        out.append((_sig("diagramize", params), "diagramize of the function body describing %s returned %s" % (d, got)))
    return out


def norm(r):
    def t(x):
        return tuple(t(y) for y in x) if isinstance(x, (list, tuple)) else x
    return t(r)


CASES = {k: safe("C20", f) for k, f in {"layout": check_layout, "render": check_render,
                                        "diagramize": check_diagramize}.items()}


def special_recipes():
    """Diagrams exercising the other drawing code paths (wires-as-boxes, spiders, quantum)."""
    out = []
    _, rs = build.rigid_signature()
    out += [r for r in build.universe("rigid", rs, [(), ("n",), ("n", "n.l")], 2, 4)][::7]
    from mc import pools
    for cls in ("tensor", "circuit", "zx"):
        out += pools.recipes(cls, 2, 3)[::5]
    # the box zoo: every box constructor x flag variant, bubbles with re-declared dom/cod,
    # composite subclasses, foliations
    from mc import zoo
    for cls in zoo.CLASSES:
        if cls != "cat":
            out += [("zoo", cls, e) for e in zoo.entries(cls)]
    return out


def _worker(shard):
    part = Part()
    for case, params in shard:
        res = CASES[case](params)
        part.count("transitions")
        part.count("states")
        part.count(case + "_cases")
        if len(params["recipe"][2]) >= 1:
            part.seen("nontrivial", repr((case, params["recipe"])))
        for s_, msg in res:
            part.violation(s_, msg, case, params)
        if case == "layout" and len(part.samples) < 1 and len(params["recipe"][2]) == 2:
            part.sample(params)
    return part


def run(ctx):
    sig = shape_sig()
    doms = [("x",) * n for n in range(5)]
    depth = 3 if ctx.quick else 4
    uni = list(build.universe("monoidal", sig, doms, depth, 4))
    # wide boxes above narrow gaps need room: depth <= 2 on up to 7 wires (inputs still <= 4)
    wide = [r for r in build.universe("monoidal", sig + [("box", "b14", ("x",), ("x",) * 4)], doms, 2, 7)
            if len(r[2]) == 2]
    if ctx.quick:
        uni = [r for r in uni if len(r[2]) <= 2] + [r for r in uni if len(r[2]) == 3][::12]
        ctx.note("stride", "depth-3 diagrams every 12th (depth <= 2 complete)")
        ctx.cap_hit("layouts of depth 3 every 12th (depth <= 2 complete)")
    else:
        uni = [r for r in uni if len(r[2]) <= 3] + [r for r in uni if len(r[2]) == 4][::60]
        ctx.cap_hit("depth-4 diagrams enumerated with stride 60 (depth <= 3 complete)")
    items = [("layout", dict(recipe=r)) for r in uni + wide]
    small = [r for r in uni if len(r[2]) <= 2]
    deep3 = [r for r in uni if len(r[2]) == 3]
    items += [("diagramize", dict(recipe=r)) for r in deep3[:: (3 if ctx.quick else 1)]]
    items += [("render", dict(recipe=r, matplotlib=(i % (6 if ctx.quick else 2) == 0))) for i, r in enumerate(small)]
    items += [("render", dict(recipe=r, matplotlib=(i % 3 == 0 or r[0] == "zoo"))) for i, r in enumerate(special_recipes())]
    # the layout oracle (one node per box and port, polygons = boxes) is the one of plain boxes:
    # not for circuits (measure gauges, discard symbols, control dots, kets drawn bit by bit),
    # bubbles (opened before drawing) and foliations
    items += [("layout", dict(recipe=r)) for r in special_recipes()
              if r[0] == "zoo" and r[1] != "circuit" and "ubble" not in r[2] and "foliation" not in r[2]
              and all(hasattr(b, "name") for b in build.build(r).boxes)]
    items += [("layout", dict(recipe=r, open=True)) for r in special_recipes() if r[0] == "zoo" and "ubble" in r[2]]
    items += [("diagramize", dict(recipe=r)) for r in small]
    ctx.bounds.update(arities="0..3 with i+j<=4", width=4, depth=depth)
    ctx.note("sizes", "%d layouts, %d render cases, %d diagramize cases"
             % (len(uni), sum(1 for c, _ in items if c == "render"), len(small)))
    ctx.rule = ("every diagram of the universe: layout graph/positions against the scan replay, recorded "
                "drawing primitives (no wire through a box, no crossing), both back-ends on every depth-<=2 "
                "diagram and on rigid/tensor/circuit/zx samples, diagramize round trip. nontrivial = distinct "
                "(case, diagram) with at least one box")
    ctx.assumptions = ["coordinates and requested primitives are checked, not rendered pixels",
                       "matplotlib with the Agg backend, output to a temporary directory that is removed"]
    for p in pmap(_worker, build.shards(items, 128)):
        ctx.merge(p)
    ctx.counters["traces_validated_against_impl"] = ctx.counters.get("transitions", 0)
