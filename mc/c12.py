"""C12 -- mixed evaluation agrees with pure evaluation and the Born rule.

Space: every circuit up to the depth/width bound over the full classical-quantum alphabet (bits
and qubits interleaved: gates, kets, bras, bits, all four variants of Measure and Encode, Discard
and MixedState on bits and qubits, Copy/Match, stochastic classical gates, pure and mixed
scalars, swaps of every bit/qubit combination), from every initial type of width <= 2.
Oracle: reference superoperator algebra on doubled wires (mc.qref.cq_ref) mapped to CQMap's
documented layout; CQMap.pure of the pure evaluation; probabilities read off the reference.
"""
import itertools

import numpy as np

from mc import ref, build, qref
from mc.core import Part, pmap, digest, safe


def _sig(kind, params):
    return "C12:%s:%s" % (kind, digest(params))


def cq_sig(quick):
    sig = [("e", x) for x in (
        "H", "X", "S", "CX", "Rz(0.2996)", "Ry(-0.7)", "CRz(0.25)", "Ket(0)", "Ket(1)", "Bra(0)", "Bra(1)",
        "Bits(1)", "Bits(0)", "Bits(1).dagger()",
        "Measure()", "Measure(destructive=False)", "Measure(override_bits=True)",
        "Measure(destructive=False, override_bits=True)",
        "Encode()", "Encode(constructive=False)", "Encode(reset_bits=True)",
        "Encode(constructive=False, reset_bits=True)",
        "Discard()", "Discard(bit)", "MixedState()", "MixedState(bit)", "Copy()", "Match()",
        "ClassicalGate('noisy', 1, 1, [0.9, 0.1, 0.2, 0.8])", "ClassicalGate('xor', 2, 1, [1, 0, 0, 1, 0, 1, 1, 0])",
        "scalar(0.6+0.8j)", "scalar(0.5j)", "scalar(0.25, is_mixed=True)", "sqrt(2)",
        "Swap(bit, qubit)", "Swap(qubit, bit)", "Swap(bit, bit)", "SWAP")]
    sig += [("e", x) for x in ("Measure(2)", "Discard(2)", "MixedState(2)", "Ket(0, 1)", "Bra(1, 0)")]
    # boxes that share a printed name with another box of the alphabet but differ in content
    sig += [("e", x) for x in ("Rz(0.3004)", "scalar(0.25)", "ClassicalGate('noisy', 1, 1, [0.5, 0.5, 0.1, 0.9])")]
    if not quick:
        sig += [("e", x) for x in ("Discard(bit @ qubit)", "Y", "T", "Encode(2)", "Measure(2, destructive=False)")]
    return sig


TP_CLASSES = ("Ket", "Bits", "QuantumGate", "Controlled", "Rx", "Ry", "Rz", "CRz", "CU1", "CRx", "Measure",
              "Discard", "Swap", "Copy")


def trace_preserving(d):
    """Is the circuit made only of preparations, unitaries, measurements, discards, swaps and
    stochastic classical gates (so that it must be trace preserving)?"""
    from discopy.quantum import gates
    for b in d.boxes:
        n = type(b).__name__
        if n == "ClassicalGate":
            G = np.asarray(b.array, dtype=float).reshape(2 ** len(b.dom), -1)
            if b.is_dagger or np.any(G < 0) or not np.allclose(G.sum(axis=1), 1):
                return False
            continue
        if n == "Bits" and b.is_dagger:
            return False
        if n == "QuantumGate" and b._name not in qref.TKET:
            return False
        if n not in TP_CLASSES:
            return False
    return True


def check_circuit(params):
    recipe = norm(params["recipe"])
    d = build.build(recipe)
    out = []

    def bad(kind, msg):
        out.append((_sig(kind, params), "%s: %s" % (d, msg)))
    dk, ck = [o.name for o in d.dom.objects], [o.name for o in d.cod.objects]
    E = qref.cq_ref(d)
    A, _ = qref.to_cqmap_layout(E, dk, ck)
    try:
        got = d.eval(mixed=True)
    except Exception as e:  # noqa
        bad("raises", "eval(mixed=True) raised %s: %s" % (type(e).__name__, str(e)[:100]))
        return out
    arr = np.array(got.array, dtype=complex)
    # the evaluation belongs to the caller: overwrite it in place, the circuit must evaluate the same again
    if isinstance(got.array, np.ndarray) and got.array.flags.writeable and got.array.size:
        got.array[...] = 7
        again = np.asarray(build.build(recipe).eval(mixed=True).array, dtype=complex)
        if again.shape != arr.shape or not qref.close(again, arr):
            bad("result-aliased", "after the array returned by eval(mixed=True) was overwritten in place the same "
                "circuit evaluates differently: the result shares memory with a box")
    if arr.size != A.size:
        bad("shape", "eval(mixed=True).array has %d entries, the circuit type %s -> %s needs %d"
            % (arr.size, d.dom, d.cod, A.size))
        return out
    if not qref.close(arr.reshape(A.shape), A):
        bad("value", "eval(mixed=True) differs from the reference classical-quantum map")
        return out
    nq_in, nq_out = dk.count("qubit"), ck.count("qubit")
    if tuple(o.name for o in got.dom.classical.objects) != (2,) * dk.count("bit") or \
            tuple(o.name for o in got.dom.quantum.objects) != (2,) * nq_in or \
            tuple(o.name for o in got.cod.classical.objects) != (2,) * ck.count("bit") or \
            tuple(o.name for o in got.cod.quantum.objects) != (2,) * nq_out:
        bad("cq-type", "eval(mixed=True) : %s -> %s" % (got.dom, got.cod))
    kinds = set(dk) | {o.name for lay in d.layers.boxes for o in lay.cod.objects}
    types = [dk] + [[o.name for o in lay.cod.objects] for lay in d.layers.boxes]
    needs_mixed = any("bit" in t and "qubit" in t for t in types) \
        or any(getattr(b, "is_mixed", False) for b in d.boxes)
    if needs_mixed:
        try:
            default = d.eval()
            da = np.asarray(default.array, dtype=complex)
            if type(default).__name__ != "CQMap" or da.size != A.size or not qref.close(da.reshape(A.shape), A):
                bad("default-eval", "bits and qubits coexist (or a box is mixed) but eval() without mixed=True "
                    "is not the classical-quantum evaluation (got a %s with %d entries)"
                    % (type(default).__name__, da.size))
        except Exception as e:  # noqa
            bad("default-eval-raises", "eval() raised %s: %s" % (type(e).__name__, str(e)[:100]))
    if not d.is_mixed and kinds <= {"qubit"}:
        from discopy.quantum.cqmap import CQMap
        pure = d.eval()
        doubled = CQMap.pure(pure)
        if not qref.close(np.asarray(doubled.array).reshape(A.shape), A):
            bad("pure-vs-mixed", "CQMap.pure(eval()) differs from eval(mixed=True)")
        params["_pure"] = True
    elif not d.is_mixed and kinds <= {"bit"} and not any(type(b).__name__ in ("Scalar", "Sqrt", "MixedScalar")
                                                         for b in d.boxes):
        from discopy.quantum.cqmap import CQMap
        cl = CQMap.classical(d.eval())
        if not qref.close(np.asarray(cl.array).reshape(A.shape), A):
            bad("classical-vs-mixed", "CQMap.classical(eval()) differs from eval(mixed=True)")
    # dagger of the whole circuit = adjoint of the map
    try:
        dg = d.dagger()
        Ed = qref.cq_ref(dg)
        if not qref.close(Ed, E.conj().T):
            raise AssertionError("reference adjoint mismatch")
        gd = np.asarray(dg.eval(mixed=True).array, dtype=complex)
        Ad, _ = qref.to_cqmap_layout(E.conj().T, ck, dk)
        if gd.size != Ad.size or not qref.close(gd.reshape(Ad.shape), Ad):
            bad("dagger", "dagger().eval(mixed=True) is not the adjoint of eval(mixed=True)")
    except KeyError:
        pass
    except Exception as e:  # noqa
        bad("dagger-raises", "%s: %s" % (type(e).__name__, str(e)[:100]))
    # Born rule / probabilities
    if trace_preserving(d):
        closed = d.init_and_discard()
        Ec = qref.cq_ref(closed)
        dist = qref.distribution(Ec, [o.name for o in closed.cod.objects])
        total = sum(dist.values())
        if abs(total - 1) > 1e-9 or any(abs(v.imag) > 1e-9 or v.real < -1e-9 for v in dist.values()):
            raise AssertionError("reference distribution is not a probability distribution: %r" % dist)
        params["_tp"] = True
        try:
            counts = d.get_counts()
            m1 = np.asarray(d.measure(mixed=True))
            m0 = np.asarray(d.measure())
        except Exception as e:  # noqa
            bad("counts-raises", "%s: %s" % (type(e).__name__, str(e)[:100]))
            return out
        n = len(closed.cod)
        for bits, p in dist.items():
            c = counts.get(bits, 0)
            if abs(c - p.real) > 1e-9:
                bad("get_counts", "get_counts()[%s] = %r, reference probability %.6f; counts=%r"
                    % (bits, c, p.real, counts))
                break
        if any(len(kk) != n for kk in counts) or abs(sum(counts.values()) - 1) > 1e-9:
            bad("counts-not-distribution", "get_counts() = %r" % (counts,))
        want = np.array([dist[b].real for b in itertools.product((0, 1), repeat=n)]).reshape((2,) * n or (1,))
        if m1.shape != want.shape or not qref.close(m1, want):
            bad("measure-mixed", "measure(mixed=True) = %s, reference %s" % (m1.tolist(), want.tolist()))
        if not d.is_mixed and kinds <= {"qubit"}:
            # pure path: squared magnitudes of the amplitudes from |0..0>
            if m0.size != 2 ** len(ck) or abs(m0.sum() - 1) > 1e-9:
                bad("measure-pure", "measure() = %s does not sum to 1" % (m0.tolist(),))
            else:
                closedq = qref.cq_ref(build.kit("circuit").ns["Ket"](*([0] * len(dk))) >> d) if dk else E
                # probabilities of measuring every output qubit
                probs = [closedq.reshape((4,) * len(ck))[tuple(3 * b for b in bits)].real if ck else closedq[0, 0].real
                         for bits in itertools.product((0, 1), repeat=len(ck))]
                if not qref.close(m0.flatten(), np.array(probs)):
                    bad("measure-pure", "measure() = %s, Born rule gives %s" % (m0.flatten().tolist(), probs))
        elif m0.shape != want.shape or not qref.close(m0, want):
            bad("measure", "measure() = %s, reference %s" % (m0.tolist(), want.tolist()))
    return out


def check_batch(params):
    """Several circuits evaluated / counted in one call: every answer is the answer the circuit
    gets on its own (which the other cases compare with the reference)."""
    cs = [build.build(norm(r)) for r in params["recipes"]]
    out = []

    def arr(v):
        return type(v).__name__, np.asarray(getattr(v, "array", v), dtype=complex)
    for label, batch, single in (
            ("eval", lambda: cs[0].eval(*cs[1:]), lambda c: c.eval()),
            ("eval(mixed=True)", lambda: cs[0].eval(*cs[1:], mixed=True), lambda c: c.eval(mixed=True)),
            ("get_counts", lambda: cs[0].get_counts(*cs[1:]), lambda c: c.get_counts())):
        try:
            alone = [single(c) for c in cs]
        except Exception:
            continue        # not defined for one of the circuits on its own: nothing to compare
        try:
            together = batch()
        except Exception as e:  # noqa
            out.append((_sig("batch-raises", [params, label]), "%s on the batch %s raised %s: %s, every circuit alone is fine"
                        % (label, cs, type(e).__name__, str(e)[:100])))
            continue
        if not isinstance(together, list) or len(together) != len(cs):
            out.append((_sig("batch-shape", [params, label]), "%s on the batch %s returned %r" % (label, cs, together)))
            continue
        for i, (a, b) in enumerate(zip(alone, together)):
            if label == "get_counts":
                same = set(a) == set(b) and all(abs(a[k_] - b[k_]) < 1e-9 for k_ in a)
            else:
                (ta, va), (tb, vb) = arr(a), arr(b)
                same = ta == tb and va.shape == vb.shape and qref.close(va, vb)
            if not same:
                out.append((_sig("batch-value", [params, label]), "%s on the batch %s: circuit #%d = %s gets %s, alone it gets %s"
                            % (label, [str(c) for c in cs], i, cs[i], str(b)[:120], str(a)[:120])))
                break
    return out


def check_qudits(params):
    """Discarding and maximally mixed states on wires of any dimension (digits and qudits):
    Discard is the trace / the sum over values, MixedState its adjoint, their composite the
    dimension, also for several wires of different kinds and dimensions."""
    from discopy.quantum.circuit import Ty, Digit, Qudit, Discard, MixedState
    kinds = [tuple(x) for x in params["wires"]]      # ('Digit' | 'Qudit', dimension)
    t = Ty(*[(Digit if k == "Digit" else Qudit)(d) for k, d in kinds])
    out = []

    def bad(kind, msg):
        out.append((_sig(kind, params), "wires %s: %s" % (kinds, msg)))
    for ob, (k, d) in zip(t.objects, kinds):
        if getattr(ob, "dim", None) != d:
            bad("qudit-dim", "the wire %r reports dimension %r" % (ob, getattr(ob, "dim", None)))
            return out
    cdims = tuple(d for k, d in kinds if k == "Digit")
    qdims = tuple(d for k, d in kinds if k == "Qudit")
    want = np.ones(cdims or (1,))
    eye = np.ones(())
    for d in qdims:
        eye = np.multiply.outer(eye, np.eye(d))
    # CQMap layout: classical wires first, then the quantum wires, then their copies
    nq = len(qdims)
    if nq:
        eye = np.transpose(eye, [2 * i for i in range(nq)] + [2 * i + 1 for i in range(nq)])
    want = np.multiply.outer(want.reshape(cdims) if cdims else np.ones(()), eye)
    try:
        dis, mix = Discard(t).eval(mixed=True), MixedState(t).eval(mixed=True)
        both = (MixedState(t) >> Discard(t)).eval(mixed=True)
    except Exception as e:  # noqa
        bad("qudit-raises", "%s: %s" % (type(e).__name__, str(e)[:120]))
        return out
    total = int(np.prod([d for _, d in kinds])) if kinds else 1
    for label, v in (("Discard", dis), ("MixedState", mix)):
        a = np.asarray(v.array, dtype=complex)
        if a.size != want.size or not qref.close(a.reshape(want.shape), want):
            bad("qudit-value", "%s(%s).eval(mixed=True) = %s, expected the trace / uniform weights %s"
                % (label, t, np.round(a.real, 3).tolist(), want.tolist()))
            return out
    if not qref.close(np.asarray(both.array, dtype=complex).reshape(1), np.array([total])):
        bad("qudit-dimension", "(MixedState >> Discard).eval(mixed=True) = %s, expected the dimension %d" % (both.array, total))
    cd = tuple(o.name for o in dis.dom.classical.objects), tuple(o.name for o in dis.dom.quantum.objects)
    if cd != (cdims, qdims):
        bad("qudit-type", "Discard(%s).eval(mixed=True) has domain %s" % (t, dis.dom))
    return out


def norm(r):
    def t(x):
        return tuple(t(y) for y in x) if isinstance(x, (list, tuple)) else x
    return t(r)


CASES = {k: safe("C12", f) for k, f in {"circuit": check_circuit, "batch": check_batch, "qudits": check_qudits}.items()}


def _worker(shard):
    part = Part()
    for case, params in shard:
        res = CASES[case](params)
        part.count("transitions")
        part.count("states")
        if params.pop("_pure", False):
            part.count("pure_vs_mixed_checked")
        if params.pop("_tp", False):
            part.count("trace_preserving_checked")
        part.seen("nontrivial", repr(params.get("recipe", params.get("recipes"))))
        for s_, msg in res:
            part.violation(s_, msg, case, params)
        if case == "circuit" and len(part.samples) < 1 and params["recipe"][0] != "zoo" and len(params["recipe"][2]) == 2:
            part.sample(params)
    return part


def run(ctx):
    depth = 2 if ctx.quick else 3
    width = 3
    sig = cq_sig(ctx.quick)
    doms = [(), ("qubit",), ("bit",), ("bit", "qubit"), ("qubit", "bit"), ("qubit", "qubit"), ("bit", "bit")]
    uni = list(build.expr_universe("circuit", sig, doms, depth, width))
    if ctx.quick:
        uni = [r for r in uni if len(r[2]) <= 1] + [r for r in uni if len(r[2]) == 2][::5]
        ctx.cap_hit("circuits of depth 2 every 5th (depth <= 1 complete)")
    elif depth == 3:
        uni = [r for r in uni if len(r[2]) <= 2] + [r for r in uni if len(r[2]) == 3][::40]
        ctx.cap_hit("depth-3 circuits enumerated with stride 40 (all depth <= 2 complete)")
    ctx.bounds.update(depth=depth, width=width, alphabet=[s[1] for s in sig])
    ctx.note("universe", "%d circuits" % len(uni))
    ctx.rule = ("every circuit over the classical-quantum alphabet up to the bound: eval(mixed=True) vs "
                "the reference superoperator (value, CQ type), CQMap.pure(eval()) for pure circuits, "
                "dagger = adjoint, and for trace-preserving circuits get_counts()/measure()/"
                "measure(mixed=True) vs the reference distribution. nontrivial = distinct circuits")
    ctx.assumptions = ["reference in mc/qref.py built from textbook definitions with numpy kron/matmul",
                       "pytket Op.get_unitary for gate matrices; tolerance 1e-9"]
    E = lambda x: ("e", x)  # noqa
    mids = []
    for bitbox in ("Bits(1)", "Bits(0)"):
        for ket in ("Ket(0)", "Ket(1)"):
            for g in ("Rx(0.2)", "H", "Ry(-0.7)", "X"):
                for bra in ("Bra(0)", "Bra(1)"):
                    for side in (0, 1):   # bit on the left / on the right of the qubit
                        lay = [(E(bitbox), 0), (E(ket), 1 - side if side else 1)] if side == 0 else \
                            [(E(ket), 0), (E(bitbox), 1)]
                        q = 1 if side == 0 else 0
                        lay += [(E(g), q), (E(bra), q)]
                        mids.append(("circuit", (), tuple(lay)))
    ctx.note("directed_family", "%d circuits where a bit and a qubit coexist only mid-circuit" % len(mids))
    items = [("circuit", dict(recipe=r)) for r in uni + mids]
    # the box zoo: every box constructor x flag variant (bit and qubit versions, daggers) and the
    # composite subclasses, over bits and qubits
    from mc import zoo
    nz = 0
    for e in zoo.entries("circuit"):
        v = zoo.value("circuit", e)
        if not hasattr(v, 'is_mixed') or v.free_symbols or any(o.name not in ("qubit", "bit") for b in v.boxes for t in (b.dom, b.cod) for o in t.objects) \
                or any(type(b).__name__ in ("Box", "Bubble") or not hasattr(b, "name") for b in v.boxes):
            continue
        items.append(("circuit", dict(recipe=("zoo", "circuit", e))))
        nz += 1
    ctx.note("zoo", "%d zoo entries" % nz)
    # batches: every ordered pair and triple of a menu of small circuits of every kind (pure,
    # mixed by a box, mixed only because bits and qubits coexist, classical, scalars)
    Z = lambda e: ("zoo", "circuit", e)  # noqa
    menu = [Z("H"), Z("Ket(0) >> H"), Z("Rx(0.3) >> Measure()"), Z("Ket(1) >> Discard()"), Z("H @ Bits(1)"),
            Z("Bits(1, 0) >> Match()"), Z("scalar(0.5j) @ Ket(1)"), Z("Ket(0) >> Rx(0.4) >> Bra(0)"),
            Z("Ket(0) @ Bits(1) >> Rx(0.35) @ Id(bit)"), Z("Ket(0) >> Ry(0.2) >> Measure(destructive=False)")]
    for a in menu:
        for b in menu:
            items.append(("batch", dict(recipes=[a, b])))
    for tr in itertools.permutations(menu[:6], 3):
        items.append(("batch", dict(recipes=list(tr))))
    wires = [(k_, d_) for k_ in ("Digit", "Qudit") for d_ in (2, 3, 4)]
    for n in (1, 2):
        for ws in itertools.product(wires, repeat=n):
            items.append(("qudits", dict(wires=[list(w) for w in ws])))
    items.append(("qudits", dict(wires=[["Qudit", 3], ["Digit", 2], ["Qudit", 2]])))
    for p in pmap(_worker, build.shards(items, 128)):
        ctx.merge(p)
    ctx.counters["traces_validated_against_impl"] = ctx.counters.get("transitions", 0)
