"""C07 -- snake removal is sound for rigid diagrams.

Space: rigid universe (adjoints of winding -2..2, caps and cups of every adjoint pair in both
orders, polymorphic generic boxes taking 0..2 of the wires present and returning 0..1 wires,
uniquely named per occurrence) up to the depth/width bound, plus a directed family: one snake
(left or right) with every interleaving of obstructions on either side, nested and sequential
snakes.  RewriteExplorer: the generator returned by normalize() is pulled step by step.
Oracle per step: C01 scan, dom/cod, same wiring graph (cups/caps transparent) and loop count as
the input, equal generic-matrix value for dim 2 and 3, and the step is either one legal
interchange or the removal of one cap and one cup that the reference wire follower certifies as
a snake with matching types.  Final value has no yankable pair left.
"""
import itertools

import numpy as np

from mc import ref, build
from mc.core import Part, pmap, digest, safe, time_limit
from mc.build import parse_atom, atom_str

NAME = "n"


def _sig(kind, params):
    return "C07:%s:%s" % (kind, digest(params))


def atoms_for(windings):
    return [atom_str(NAME, z) for z in windings]


def rigid_universe(doms, max_depth, max_width, windings, poly=True, require_cap=False):
    """Like build.universe with cups/caps of every adjoint pair and polymorphic boxes."""
    ws = list(windings)
    cupcap = []
    for za in ws:
        for zb in ws:
            if abs(za - zb) == 1:
                cupcap.append((atom_str(NAME, za), atom_str(NAME, zb)))
    level = [(tuple(dom), (), tuple(dom)) for dom in doms]
    for depth in range(max_depth + 1):
        for dom, layers, cod in level:
            if not require_cap or any(s[0] == "cap" for s, _ in layers):
                yield ("rigid", dom, layers)
        if depth == max_depth:
            break
        nxt = []
        for dom, layers, cod in level:
            n = len(cod)
            for off in range(n + 1):
                if n + 2 <= max_width:
                    for a, b in cupcap:
                        nxt.append((dom, layers + ((("cap", a, b), off),), cod[:off] + (a, b) + cod[off:]))
                if off + 2 <= n:
                    a, b = cod[off], cod[off + 1]
                    za, zb = parse_atom(a)[1], parse_atom(b)[1]
                    if abs(za - zb) == 1:
                        nxt.append((dom, layers + ((("cup", a, b), off),), cod[:off] + cod[off + 2:]))
                if poly:
                    for k in range(0, 3):
                        if off + k > n:
                            continue
                        for c in ((), (NAME,)):
                            if n - k + len(c) > max_width:
                                continue
                            name = "f%d%d@%d" % (k, len(c), depth)
                            spec = ("box", name, cod[off:off + k], c)
                            nxt.append((dom, layers + ((spec, off),), cod[:off] + c + cod[off + k:]))
        level = nxt


def directed_family(quick):
    """One snake with every interleaving of left/right obstructions; nested/sequential snakes."""
    out = []
    base = NAME
    # snake shapes: (cap spec, cup spec, left_snake?) over windings
    zs = (-1, 0, 1)
    obst = [(0, 1), (1, 1), (1, 0), (0, 0)]   # (inputs, outputs) of obstruction boxes
    for z in zs:
        a = atom_str(base, z)
        ar, al = atom_str(base, z + 1), atom_str(base, z - 1)
        # left snake on wire a:  Id(a) @ Cap(ar, a)  >> obstructions >> Cup(a, ar) @ Id(a)
        # right snake on wire a: Cap(a, al) @ Id(a) >> obstructions >> Id(a) @ Cup(al, a)
        for left_snake in (True, False):
            top = 3 if not quick else 3
            for nl, nr in itertools.product(range(0, top), repeat=2):
                # all four arity shapes for up to 2 obstructions; for 3-4 obstructions the two
                # shapes that matter for index bookkeeping (a 1->1 box and a scalar)
                menu = obst if nl + nr <= 2 else [(1, 1), (0, 0)]
                if nl + nr == 1:      # one obstruction of every small arity, wider than the cap beside it
                    menu = obst + [(1, 2), (1, 3), (0, 2), (0, 3), (2, 1), (2, 3)]
                if not quick and nl + nr == 3:
                    menu = obst
                for shapes in itertools.product(menu, repeat=nl + nr):
                    for order in sorted(set(itertools.permutations(["L"] * nl + ["R"] * nr))):
                        for inner in ((False, True) if nl + nr else (False,)):
                            for collector in (False, True):
                                r = _snake_recipe(a, ar, al, left_snake, order, shapes, inner, collector)
                                if r is not None:
                                    out.append(r)
                                # the same with *equal* obstruction boxes (same name and type on
                                # one side): bookkeeping by equality instead of position shows here
                                if nl + nr >= 2 and len(set(shapes)) < len(shapes):
                                    r = _snake_recipe(a, ar, al, left_snake, order, shapes, inner, collector, equal=True)
                                    if r is not None:
                                        out.append(r)
    out += cup_over_cap_family()
    out += equal_caps_family()
    out += wide_leg_family()
    return out


def wide_leg_family():
    """A box with one input and k = 1..3 outputs on the wire that enters the cup (one output feeds the
    cup, the others continue next to the snake), right beside the cap; alone, or with an effect or
    a state on the outer side."""
    out = []
    for z in (-1, 0, 1):
        a, ar, al = atom_str(NAME, z), atom_str(NAME, z + 1), atom_str(NAME, z - 1)
        for k_out in (1, 2, 3):
            extra = ("n",) * (k_out - 1)
            for outer in (None, "effect", "state"):
                # right snake:  Cap(a, al) @ Id(a)  >>  Id(a @ al) @ h  >>  Id(a) @ Cup(al, a) @ Id(extra)
                lay = [(("cap", a, al), 0)]
                lw = 0
                if outer == "effect":      # an extra wire on the far left, eaten between cap and cup
                    dom = ("n", a)
                    lay = [(("cap", a, al), 1), (("box", "e", ("n",), ()), 0)]
                elif outer == "state":
                    dom = (a,)
                    lay = [(("cap", a, al), 0), (("box", "u", (), ("n",)), 0)]
                    lw = 1
                else:
                    dom = (a,)
                lay += [(("box", "h", (a,), (a,) + extra), lw + 2), (("cup", al, a), lw + 1)]
                out.append(("rigid", dom, tuple(lay)))
                # left snake:  Id(a) @ Cap(ar, a)  >>  h @ Id(ar @ a)  >>  Id(extra) @ Cup(a, ar) @ Id(a)
                lay = [(("cap", ar, a), 1), (("box", "h", (a,), extra + (a,)), 0), (("cup", a, ar), len(extra))]
                dom = (a,)
                if outer == "effect":
                    dom = (a, "n")
                    lay = [(("cap", ar, a), 1), (("box", "e", ("n",), ()), 3), (("box", "h", (a,), extra + (a,)), 0),
                           (("cup", a, ar), len(extra))]
                elif outer == "state":
                    lay = [(("cap", ar, a), 1), (("box", "u", (), ("n",)), 3), (("box", "h", (a,), extra + (a,)), 0),
                           (("cup", a, ar), len(extra))]
                out.append(("rigid", dom, tuple(lay)))
    return out


def equal_caps_family():
    """Two *equal* caps in one diagram: one whose legs feed a box (not yankable), one that forms a
    snake with a matching cup -- in both orders, for left and right snakes over three windings."""
    out = []
    for z in (-1, 0, 1):
        a, ar, al = atom_str(NAME, z), atom_str(NAME, z + 1), atom_str(NAME, z - 1)
        for left_snake in (True, False):
            cap = ("cap", ar, a) if left_snake else ("cap", a, al)
            legs = (ar, a) if left_snake else (a, al)
            eater = ("box", "eat", legs, (a,))          # consumes both legs of the first cap, returns the wire a
            blocked = [(cap, 0), (eater, 0)]             # () -> (a)
            if left_snake:    # Id(a) @ Cap(ar, a) >> Cup(a, ar) @ Id(a)
                snake = [(cap, 1), (("cup", a, ar), 0)]
            else:             # Cap(a, al) @ Id(a) >> Id(a) @ Cup(al, a)
                snake = [(cap, 0), (("cup", al, a), 1)]
            out.append(("rigid", (), tuple(blocked + snake)))
            # the snake first, then an equal cap that is eaten (on the right of the wire)
            late = [(("box", "src", (), (a,)), 0)] + snake + [(cap, 1), (eater, 1), (("box", "join", (a, a), ()), 0)]
            out.append(("rigid", (), tuple(late)))
            # two snakes with equal caps in a row on the same wire
            out.append(("rigid", (a,), tuple(snake + snake + [(("box", "end", (a,), ()), 0)])))
    return out


def cup_over_cap_family():
    """Connected diagrams in which a cup sits directly above a cap at the same offset (an
    ambiguous pair for the left/right tie-break), alone or next to a snake on a neighbouring wire."""
    out = []
    for cl, cr in (("n", "n.r"), ("n.l", "n"), ("n.r", "n.r.r")):
        for pl, pr in (("n.r", "n"), ("n", "n.l"), ("n.l", "n.l.l")):
            for s_left in (False, True):
                for snake in (None, "L", "R"):
                    top = ("s", cl, cr) if s_left else (cl, cr, "s")
                    bot = ("s", pl, pr) if s_left else (pl, pr, "s")
                    o_pair, o_s = (1, 0) if s_left else (0, 2)
                    layers = [(("box", "A", (), top), 0), (("cup", cl, cr), o_pair)]
                    so = 0   # offset of the s wire once the pair is gone
                    if snake == "L":
                        layers += [(("cap", "s.r", "s"), so + 1), (("cup", "s", "s.r"), so)]
                    elif snake == "R":
                        layers += [(("cap", "s", "s.l"), so), (("cup", "s.l", "s"), so + 1)]
                    layers += [(("cap", pl, pr), 1 if s_left else 0), (("box", "B", bot, ()), 0)]
                    out.append(("rigid", (), tuple(layers)))
    return out


def _snake_recipe(a, ar, al, left_snake, order, shapes, inner=False, collector=False, equal=False):
    """dom = lw (x) a (x) rw.  A cap is opened next to the wire a, obstruction boxes act between
    the cap and the cup, then the cup closes the snake.  Obstructions act on the outer context
    wire of their side; with inner=True the obstructions of the side where the cap's *free* leg
    lies act on that free leg instead (a box sitting on the snake's own outgoing wire)."""
    lw, rw = "n", "n"
    dom = (lw, a, rw)
    layers = []
    if left_snake:
        layers.append((("cap", ar, a), 2))       # lw a | ar a | rw   (free leg: a, right side)
        free = [a]
    else:
        layers.append((("cap", a, al), 1))       # lw | a al | a rw   (free leg: a, left side)
        free = [a]
    left_ctx, right_ctx = [lw], [rw]
    t = 0
    for side, (i, o) in zip(order, shapes):
        on_free = inner and ((side == "R") == left_snake)
        name = "o%s%d%d@%d" % (side, i, o, t) if not equal else "o%s%d%d" % (side, i, o)
        t += 1
        if on_free:
            if i != 1 or o != 1:
                return None            # the free leg must survive with its type: only 1 -> 1 boxes
            off = len(left_ctx) + (2 if left_snake else 0)
            layers.append((("box", name, (free[0],), (free[0],)), off))
            continue
        ctx = left_ctx if side == "L" else right_ctx
        if i > len(ctx):
            return None
        if side == "L":
            off = len(left_ctx) - i
            spec = ("box", name, tuple(left_ctx[off:off + i]), ("n",) * o)
            layers.append((spec, off))
            left_ctx[off:off + i] = ["n"] * o
        else:
            base = len(left_ctx) + 3
            spec = ("box", name, tuple(right_ctx[:i]), ("n",) * o)
            layers.append((spec, base))
            right_ctx[:i] = ["n"] * o
    nl = len(left_ctx)
    if left_snake:
        layers.append((("cup", a, ar), nl))
    else:
        layers.append((("cup", al, a), nl + 1))
    if collector:   # one box joining every remaining wire: connects all boxes that have a wire
        rest = tuple(left_ctx) + (a,) + tuple(right_ctx)
        layers.append((("box", "collect", rest, ()), 0))
    return ("rigid", dom, tuple(layers))


# ------------------------------------------------------------------ reference semantics

def transparent(name, bd, bc):
    if name.startswith("cup("):
        return [(("d", 0), ("d", 1))]
    if name.startswith("cap("):
        return [(("c", 0), ("c", 1))]
    return None


def model_of(d):
    def nm(b):
        from discopy import rigid
        if isinstance(b, rigid.Cup):
            return "cup(%s)" % (ref.ty_key(b.dom),)
        if isinstance(b, rigid.Cap):
            return "cap(%s)" % (ref.ty_key(b.cod),)
        return str(b.name)
    return ref.to_model(d, nm)


def matrix_of(d, dim, seed=0):
    from discopy import rigid

    def mat_of(b, dd, dc):
        if isinstance(b, rigid.Cup):
            return ref.cup_matrix(dim)
        if isinstance(b, rigid.Cap):
            return ref.cup_matrix(dim).T
        return ref.generic_array(str(b.name), ref.prod(dd), ref.prod(dc), seed)
    return ref.ref_eval(d, lambda a: dim, mat_of)


def follow(m, i, pos):
    """Follow the wire at position `pos` just below layer i of M-diagram m.  Returns
    (j, leg) = consuming layer and its input index, or (None, final position); plus whether a
    box was met *on* the wire (never, by construction: the consumer is the first box on it)."""
    dom, layers = m
    for j in range(i + 1, len(layers)):
        (name, bd, bc), off = layers[j]
        if off <= pos < off + len(bd):
            return j, pos - off
        if off + len(bd) <= pos:
            pos += len(bc) - len(bd)
    return None, pos


def yankable_pairs(m):
    """All (cap layer, cup layer, 'left'|'right') such that a leg of the cap runs straight into
    the opposite leg of a cup and the outer types match (cup.dom == reversed cap.cod)."""
    dom, layers = m
    out = []
    for i, ((name, bd, bc), off) in enumerate(layers):
        if not name.startswith("cap("):
            continue
        for leg, kind in ((0, "left"), (1, "right")):
            j, k = follow(m, i, off + leg)
            if j is None or not layers[j][0][0].startswith("cup("):
                continue
            if k != 1 - leg:
                continue
            cup_dom = layers[j][0][1]
            if tuple(cup_dom) == tuple(bc)[::-1]:
                out.append((i, j, kind))
    return out


def one_box_moves(m):
    """Every M-diagram obtained from m by moving ONE box up or down through a sequence of legal
    adjacent interchanges (what unsnake yields when it clears an obstruction)."""
    out = set()
    n = len(m[1])
    for i in range(n):
        for step in (-1, 1):
            cur, pos = {m}, i
            while 0 <= pos + step < n and cur:
                nxt = set()
                for x in cur:
                    for _, s in ref.legal_moves(x, min(pos, pos + step)):
                        nxt.add(s)
                out |= nxt
                cur, pos = nxt, pos + step
    return out


def check_normalize(params):
    from discopy import rigid
    recipe = build_norm(params["recipe"])
    left = params.get("left", False)
    d = build.build(recipe)
    if params.get("dagger"):     # the same diagram reached through the library's own dagger
        d = d[::-1]
    m0 = model_of(d)
    n = len(d)
    horizon = 6 * n * n + 12
    out = []

    def bad(kind, msg):
        out.append((_sig(kind, params), "normalize(left=%s) of %s: %s" % (left, d, msg)))
    connected = ref.box_graph_connected(m0)
    names = [b[0] for b, _ in m0[1] if not transparent(*b)]
    unique = len(set(names)) == len(names)
    w0 = ref.wiring(m0, transparent) if unique else None
    width = max(len(t) for t in ref.m_types(m0))
    mats = {dim: matrix_of(d, dim) for dim in ((2, 3) if width <= 4 else (2,))} \
        if params.get("matrices", True) else {}
    # pull the generator step by step; a repeated state is remembered (normal_form must then
    # report it) but the trace is followed up to the horizon, so that an exception or an unsound
    # step *after* a repeat is seen too
    trace, seen, status, repeated = [], {ref.diagram_key(d)}, "done", False
    try:
        for step in d.normalize(left=left):
            trace.append(step)
            k = ref.diagram_key(step)
            if k in seen:
                repeated = True
            seen.add(k)
            if len(trace) >= horizon:
                status = "horizon"
                break
    except Exception as e:  # noqa
        status = ("error", e)
    if repeated and status in ("done", "horizon"):
        status = "cycle"
    elif status == "horizon":
        status = "horizon"
    prev = d
    for t, step in enumerate(trace):
        errs = ref.scan(step)
        if errs:
            bad("step-illtyped", "step %d ill-typed: %s" % (t, errs[:2]))
            return out
        if ref.ty_key(step.dom) != ref.ty_key(d.dom) or ref.ty_key(step.cod) != ref.ty_key(d.cod):
            bad("step-domcod", "step %d : %s -> %s" % (t, step.dom, step.cod))
            return out
        if not isinstance(step, rigid.Diagram):
            bad("step-class", "step %d is a %s" % (t, type(step).__name__))
        pm, sm = model_of(prev), model_of(step)
        if len(sm[1]) == len(pm[1]):
            if sm != pm and sm not in one_box_moves(pm):
                bad("step-not-a-move", "step %d: %s is not %s with one box moved past "
                    "disconnected neighbours, nor a snake removal" % (t, step, prev))
                return out
        elif len(sm[1]) == len(pm[1]) - 2:
            cands = []
            for (i, j, kind) in yankable_pairs(pm):
                rest = pm[1][:i] + pm[1][i + 1:j] + pm[1][j + 1:]
                cands.append((i, j, kind, rest))
            names_only = lambda ls: [b[0] for b, _ in ls]  # noqa
            if not any(names_only(rest) == names_only(sm[1]) for _, _, _, rest in cands):
                bad("removed-non-snake", "step %d removes two boxes from %s giving %s, but the "
                    "reference follower finds no matching yankable cap/cup pair there (%s)"
                    % (t, prev, step, [(i, j, k) for i, j, k, _ in cands]))
                return out
        else:
            bad("step-size", "step %d changes the number of boxes from %d to %d"
                % (t, len(pm[1]), len(sm[1])))
            return out
        if unique and ref.wiring(sm, transparent) != w0:
            bad("step-wiring", "step %d = %s has a different wiring graph than the input" % (t, step))
            return out
        # second, numeric witness: on every snake removal and on the last step (the wiring graph
        # above is the complete oracle and is checked on every step)
        for dim, m_in in (mats.items() if (len(sm[1]) != len(pm[1]) or t == len(trace) - 1 or not unique) else ()):
            ms = matrix_of(step, dim)
            if ms.shape != m_in.shape or not np.array_equal(ms, m_in):
                bad("step-semantics", "step %d = %s denotes a different matrix (dim %d)" % (t, step, dim))
                return out
        prev = step
    if isinstance(status, tuple):
        e = status[1]
        bad("raises", "normalize raised %s: %s after %d steps" % (type(e).__name__, str(e)[:120], len(trace)))
        return out
    if status == "horizon":
        bad("no-termination", "neither end nor repeat within %d steps" % horizon)
        return out
    try:
        with time_limit(20, "normal_form"):
            nf, exc = d.normal_form(left=left), None
    except Exception as e:  # noqa
        nf, exc = None, e
    if status == "cycle":
        if not isinstance(exc, NotImplementedError):
            bad("cycle-not-reported", "trace repeats but normal_form gave %r" % (exc or nf,))
        elif connected:
            bad("connected-cycles", "connected diagram: normal_form raised NotImplementedError")
        params["_status"] = "cycle"
        return out
    if exc is not None:
        bad("nf-raises", "trace ends after %d steps but normal_form raised %r" % (len(trace), exc))
        return out
    last = trace[-1] if trace else d
    if ref.diagram_key(nf) != ref.diagram_key(last):
        bad("nf-not-last", "normal_form = %s, last step = %s" % (nf, last))
    left_over = yankable_pairs(model_of(nf))
    if left_over:
        bad("snake-left", "normal form %s still has a yankable cap/cup pair %s" % (nf, left_over))
    params["_status"] = "done"
    params["_steps"] = len(trace)
    params["_removed"] = (n - len(nf)) // 2
    return out


def build_norm(r):
    def t(x):
        return tuple(t(y) for y in x) if isinstance(x, (list, tuple)) else x
    return t(r)


CASES = {k: safe("C07", f) for k, f in {"normalize": check_normalize}.items()}


def _worker(shard):
    part = Part()
    for item in shard:
        recipe, mats = item[:2]
        for left in (False, True):
            params = dict(recipe=recipe, left=left, matrices=mats)
            if len(item) > 2 and item[2]:
                params["dagger"] = True
            res = CASES["normalize"](params)
            part.count("states")
            st = params.pop("_status", None)
            steps = params.pop("_steps", 0)
            removed = params.pop("_removed", 0)
            part.count("transitions", steps + 1)
            part.count("traces_validated_against_impl", steps + 1)
            if st == "cycle":
                part.count("cycles_reported")
            if removed:
                part.count("snakes_removed", removed)
                part.seen("nontrivial", repr((recipe, left)))
            for sig, msg in res:
                part.violation(sig, msg, "normalize", params)
            if removed and len(part.samples) < 1:
                part.sample(dict(recipe=recipe, left=left, snakes_removed=removed, steps=steps))
    return part


def run(ctx):
    if ctx.quick:
        windings, depth, width = (-2, -1, 0, 1, 2), 3, 3
        doms = [(), ("n",), ("n.r",), ("n", "n.r")]
    else:
        windings, depth, width = (-2, -1, 0, 1, 2), 4, 4
        doms = [(), ("n",), ("n.r",), ("n", "n.r")]
    ctx.bounds.update(windings=list(windings), depth=depth, width=width, doms=[list(x) for x in doms])
    ctx.rule = ("every rigid diagram of the universe containing a cap (caps/cups of all adjoint "
                "pairs, polymorphic boxes with unique names) and a directed family of snakes with "
                "all interleavings of obstructions; normalize() pulled step by step for both left "
                "flags. nontrivial = distinct (diagram, flag) where at least one snake was removed")
    ctx.assumptions = ["'satisfies a snake equation' is read as: a cap leg runs straight into the "
                       "opposite cup leg and cup.dom == reversed cap.cod (sound under every tensor "
                       "functor, where all adjoints share one dimension)",
                       "numpy matmul/kron trusted; matrices compared exactly (Gaussian integers)"]
    items = []
    if ctx.quick:
        uni = [r for r in rigid_universe(doms, depth, width, windings, require_cap=True)]
        # depth-3 slice: keep every diagram with a cup (where a snake can exist), stride the rest
        keep = [r for r in uni if len(r[2]) <= 2 or any(s[0] == "cup" for s, _ in r[2])]
        ctx.note("universe", "depth<=3 width<=3: %d with a cap, %d kept (all with a cup, all depth<=2)"
                 % (len(uni), len(keep)))
        items += [(r, len(r[2]) <= 3) for r in keep]
        ctx.cap_hit("universe: depth-3 diagrams without any cup are skipped (no snake can exist in them); "
                    "depth <= 2 and every depth-3 diagram with a cup complete")
    else:
        uni = [r for r in rigid_universe(doms, depth, width, windings, require_cap=True)
               if len(r[2]) <= 3 or any(s[0] == "cup" for s, _ in r[2])]
        ctx.note("universe", "depth<=4 width<=4 with a cap (depth 4 only with a cup): %d" % len(uni))
        items += [(r, True) for r in uni]
    fam = directed_family(ctx.quick)
    ctx.note("directed_family", "%d snake diagrams with interleaved obstructions" % len(fam))
    items += [(r, True) for r in fam]
    # the daggers of the directed family (cups and caps produced by the library's own dagger)
    items += [(r, True, True) for r in fam[:: (2 if ctx.quick else 1)]]
    for p in pmap(_worker, build.shards(items, 128)):
        ctx.merge(p)
