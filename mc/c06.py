"""C06 -- monoidal normal form: sound, idempotent, canonical on interchanger classes.

Space: the linear-named shape universe, partitioned into interchanger-equivalence classes by BFS
in the reference move graph (ref.legal_moves).  For every class, every member, both `left` flags:
the normalize() generator is driven step by step (RewriteExplorer) and each yielded step must be an
edge of the reference move graph; termination / NotImplementedError behaviour; idempotence; and
one normal form per class when the box graph is connected.  Foliation: every yielded value and the
flattened foliation stay inside the class.
"""
from mc import ref, build
from mc.core import Part, pmap, digest, time_limit
from mc.c05 import name_key, _from_model, _norm_recipe

CLASS_CAP = 400


def _sig(kind, params):
    return "C06:%s:%s" % (kind, digest(params))


def model_class(m0, cap=CLASS_CAP):
    """Members of the interchanger class of m0 (pure model BFS). Returns (list, capped)."""
    seen, order, frontier = {m0}, [m0], [m0]
    while frontier:
        m = frontier.pop(0)
        for i in range(len(m[1]) - 1):
            for _, s in ref.legal_moves(m, i):
                if s not in seen:
                    if len(seen) >= cap:
                        return order, True
                    seen.add(s)
                    order.append(s)
                    frontier.append(s)
    return order, False


def std_rename(m):
    """Rename occurrence names by position (class identity up to renaming)."""
    dom, layers = m
    return (dom, tuple(((name.split("@")[0] + "@%d" % t, bd, bc), off)
                       for t, ((name, bd, bc), off) in enumerate(layers)))


def class_id(members):
    return digest(repr(min(repr(std_rename(m)) for m in members)))


def drive_normalize(d, left, horizon):
    """RewriteExplorer: pull the generator step by step.  Returns (trace, status) with status in
    'done' | 'cycle' | 'horizon' | ('error', exc)."""
    trace, seen = [], {ref.to_model(d, name_key)}
    try:
        gen = d.normalize(left=left)
        for step in gen:
            trace.append(step)
            k = ref.to_model(step, name_key)
            if k in seen:
                return trace, "cycle"
            seen.add(k)
            if len(trace) >= horizon:
                return trace, "horizon"
    except Exception as e:  # noqa
        return trace, ("error", e)
    return trace, "done"


def check_member(params):
    """All per-member obligations for one diagram (given as an M-diagram) and one flag."""
    cls = params["cls"]
    m = _model_from_json(params["m"])
    left = params["left"]
    connected = ref.box_graph_connected(m)
    d = _from_model(cls, m)
    n = len(m[1])
    horizon = 4 * n * n + 8
    out = []

    def bad(kind, msg):
        out.append((_sig(kind, params), "normalize(left=%s) of %s: %s" % (left, d, msg)))
    trace, status = drive_normalize(d, left, horizon)
    # (a) every yielded step is one legal interchange of the previous diagram
    prev = d
    for t, step in enumerate(trace):
        pm = ref.to_model(prev, name_key)
        succ = [s for i in range(n - 1) for _, s in ref.legal_moves(pm, i)]
        sm = ref.to_model(step, name_key)
        if sm not in succ:
            bad("step-not-a-move", "step %d: %s is not a single legal interchange of %s"
                % (t, sm[1], pm[1]))
            return out
        errs = ref.scan(step)
        if errs:
            bad("step-illtyped", "step %d ill-typed: %s" % (t, errs[:2]))
            return out
        prev = step
    if isinstance(status, tuple):
        bad("normalize-raises", "generator raised %r after %d steps" % (status[1], len(trace)))
        return out
    if status == "horizon":
        bad("no-termination", "no repeat and no end within %d steps" % horizon)
        return out
    # (b)/(d) normal_form agrees with the driven trace
    try:
        with time_limit(10, "normal_form"):
            nf, exc = d.normal_form(left=left), None
    except Exception as e:  # noqa
        nf, exc = None, e
    if status == "cycle":
        if not isinstance(exc, NotImplementedError):
            bad("cycle-not-reported", "trace repeats a state after %d steps but normal_form "
                "gave %r" % (len(trace), exc if exc is not None else nf))
        if connected:
            bad("connected-cycles", "box graph is connected but normalisation cycles")
        return out
    if exc is not None:
        bad("nf-raises", "trace terminates after %d steps but normal_form raised %r"
            % (len(trace), exc))
        return out
    last = trace[-1] if trace else d
    if ref.diagram_key(nf) != ref.diagram_key(last):
        bad("nf-not-last", "normal_form %s != last yielded step %s"
            % (ref.to_model(nf, name_key)[1], ref.to_model(last, name_key)[1]))
    errs = ref.scan(nf)
    if errs:
        bad("nf-illtyped", "normal form ill-typed: %s" % errs[:2])
        return out
    # (c) idempotence
    try:
        with time_limit(10, "normal_form of a normal form"):
            nf2 = nf.normal_form(left=left)
        if ref.diagram_key(nf2) != ref.diagram_key(nf):
            bad("not-idempotent", "nf(nf(d)) = %s != nf(d) = %s"
                % (ref.to_model(nf2, name_key)[1], ref.to_model(nf, name_key)[1]))
    except Exception as e:  # noqa
        bad("not-idempotent", "nf(nf(d)) raised %r" % (e,))
    params["_nf"] = ref.to_model(nf, name_key)
    params["_steps"] = len(trace)
    return out


def check_foliation(params):
    cls = params["cls"]
    m = _model_from_json(params["m"])
    d = _from_model(cls, m)
    n = len(m[1])
    out = []

    def bad(kind, msg):
        out.append((_sig(kind, params), "foliation of %s: %s" % (d, msg)))
    members, capped = model_class(m, cap=20000)
    memset = set(members)
    try:
        steps = list(d.foliate())
        *steps2, slices = list(d.foliate(yield_slices=True))
        fol = d.foliation()
        flat = fol.flatten()
        depth = d.depth()
    except Exception as e:  # noqa
        bad("fol-raises", "raised %r" % (e,))
        return out
    for t, s in enumerate(steps):
        if not capped and ref.to_model(s, name_key) not in memset:
            bad("fol-step-outside-class", "foliate() step %d = %s is not reachable by "
                "interchanges" % (t, ref.to_model(s, name_key)[1]))
            return out
        errs = ref.scan(s)
        if errs:
            bad("fol-step-illtyped", "foliate() step %d ill-typed: %s" % (t, errs[:2]))
            return out
    last = steps[-1] if steps else d
    errs = ref.scan(flat) + ref.scan(fol)
    if errs:
        bad("fol-illtyped", "foliation/flatten ill-typed: %s" % errs[:2])
        return out
    if ref.diagram_key(flat) != ref.diagram_key(last):
        bad("flatten-not-last", "foliation().flatten() = %s but last foliate() step = %s"
            % (ref.to_model(flat, name_key)[1], ref.to_model(last, name_key)[1]))
    if not capped and ref.to_model(flat, name_key) not in memset:
        bad("flatten-outside-class", "flatten() result is not in the interchanger class")
    if depth != len(slices) or len(fol) != len(slices):
        bad("depth", "depth()=%d, %d slices, len(foliation)=%d" % (depth, len(slices), len(fol)))
    if sum(len(s) for s in slices) != n:
        bad("slices-lose-boxes", "slices hold %d boxes, diagram has %d"
            % (sum(len(s) for s in slices), n))
    for k, s in enumerate(slices):
        sm = ref.to_model(s, name_key)
        edges, _ = ref.wiring(sm)
        for e in edges:
            ends = [p for p in e if isinstance(p[0], tuple)]
            if len(ends) == 2:
                bad("slice-not-parallel", "slice %d = %s has two boxes joined by a wire"
                    % (k, sm[1]))
                break
    return out


def check_history(params):
    """Several requests on the *same* diagram object, with different flags, interleaved with
    requests on another object: each answer equals the answer a fresh object gives."""
    cls = params["cls"]
    m = _model_from_json(params["m"])
    d = _from_model(cls, m)
    out = []

    def outcome(thunk):
        try:
            with time_limit(10, "normal_form"):
                v = thunk()
            return ("value", ref.diagram_key(v)) if not isinstance(v, list) else ("list", [ref.diagram_key(x) for x in v])
        except Exception as e:  # noqa
            return ("raises", type(e).__name__)
    for order in params["orders"]:
        for t, (what, left) in enumerate(order):
            if what == "nf":
                got = outcome(lambda: d.normal_form(left=left))
                want = outcome(lambda: _from_model(cls, m).normal_form(left=left))
            else:   # the generator, driven with cycle detection (it never ends on a disconnected diagram)
                hz = 4 * len(m[1]) ** 2 + 8
                tr, st = drive_normalize(d, left, hz)
                got = (str(st), [ref.diagram_key(x) for x in tr])
                tr, st = drive_normalize(_from_model(cls, m), left, hz)
                want = (str(st), [ref.diagram_key(x) for x in tr])
            if got != want:
                out.append((_sig("history", params), "[%s] %s: request #%d of %s on the same object, %s(left=%s), "
                            "answers %s but a fresh object answers %s" % (cls, d, t, order, what, left,
                                                                          str(got)[:160], str(want)[:160])))
                return out
    return out


def check_snaked(params):
    """The same diagram with a snake (left- or right-handed) inserted on one wire after some layer,
    as a rigid diagram: its normal form, for each flag, is the normal form of the diagram without
    the snake, and is a fixed point."""
    from discopy import rigid
    m = _model_from_json(params["m"])
    left, hand, t = params["left"], params["hand"], params["t"]
    d = _from_model("rigid", m)
    k = build.kit("rigid")
    out = []
    types = ref.m_types(m)
    wires = types[t]
    if not wires:
        params["_skip"] = True
        return out
    w = params.get("w", 0) % len(wires)
    a = k.ty([wires[w]])
    L, R = k.ty(list(wires[:w])), k.ty(list(wires[w + 1:]))
    if hand == "L":     # Id(a) @ Cap(a.r, a) >> Cup(a, a.r) @ Id(a)
        snake = k.Id(a) @ rigid.Cap(a.r, a) >> rigid.Cup(a, a.r) @ k.Id(a)
    else:               # Cap(a, a.l) @ Id(a) >> Id(a) @ Cup(a.l, a)
        snake = rigid.Cap(a, a.l) @ k.Id(a) >> k.Id(a) @ rigid.Cup(a.l, a)
    ds = d[:t] >> k.Id(L) @ snake @ k.Id(R) >> d[t:]

    def nf(v):
        try:
            with time_limit(10, "normal_form"):
                return ("value", ref.diagram_key(v.normal_form(left=left)))
        except Exception as e:  # noqa
            return ("raises", type(e).__name__)
    want, got = nf(d), nf(ds)
    if got != want:
        out.append((_sig("snaked", params), "normal_form(left=%s) of %s is %s, but of the same diagram without the snake %s"
                    % (left, ds, str(got)[:200], str(want)[:200])))
        return out
    if got[0] == "value":
        n1 = ds.normal_form(left=left)
        if ref.diagram_key(n1.normal_form(left=left)) != ref.diagram_key(n1):
            out.append((_sig("snaked-not-idempotent", params), "normal_form(left=%s) of %s is not a fixed point" % (left, ds)))
    return out


def check_fork(params):
    """In every diagram class: two states a, b (boxes without inputs) feeding a box c, written with
    a first and with b first -- two members of one connected interchanger class.  Both normalise,
    to the same value, which is well-typed, has the same boxes and is a fixed point."""
    from mc import zoo
    cls = params["cls"]
    a, b, c = (zoo.value(cls, params[k_]) for k_ in ("a", "b", "c"))
    d1 = a @ b >> c
    d2 = a.id(a.dom) @ b >> a @ a.id(b.cod) >> c
    out = []
    for left in (False, True):
        res = []
        for d in (d1, d2):
            try:
                with time_limit(10, "normal_form"):
                    nf = d.normal_form(left=left)
            except Exception as e:  # noqa
                out.append((_sig("fork-raises", [params, left]), "[%s] normal_form(left=%s) of the connected diagram %s raised %s: %s"
                            % (cls, left, d, type(e).__name__, str(e)[:120])))
                return out
            errs = ref.scan(nf)
            if errs or sorted(map(repr, map(ref.box_key, nf.boxes))) != sorted(map(repr, map(ref.box_key, d.boxes))):
                out.append((_sig("fork-unsound", [params, left]), "[%s] normal_form(left=%s) of %s = %s: %s"
                            % (cls, left, d, nf, errs[:2] or "not the same boxes")))
                return out
            if ref.diagram_key(nf.normal_form(left=left)) != ref.diagram_key(nf):
                out.append((_sig("fork-not-idempotent", [params, left]), "[%s] normal_form(left=%s) of %s is not a fixed point" % (cls, left, d)))
                return out
            res.append(ref.diagram_key(nf))
        if res[0] != res[1]:
            out.append((_sig("fork-not-canonical", [params, left]), "[%s] %s and %s are one interchange apart but have different normal forms (left=%s)"
                        % (cls, d1, d2, left)))
            return out
    return out


def fork_items(quick):
    from mc import zoo
    items = []
    for cls in ("monoidal", "rigid", "pregroup", "tensor", "circuit", "zx", "biclosed", "cartesian"):
        vals = []
        for e in zoo.BOXES[cls]:
            if "ubble" in e:
                continue
            try:
                vals.append((e, zoo.value(cls, e)))
            except Exception:
                continue
        states = [(e, v) for e, v in vals if len(v.dom) == 0 and len(v.cod) == 1]
        joins = [(e, v) for e, v in vals if len(v.dom) == 2]
        for ea, a in states:
            for eb, b in states:
                for ec, c in joins:
                    if ref.ty_key(c.dom) == ref.ty_key(a.cod) + ref.ty_key(b.cod):
                        items.append(("fork", dict(cls=cls, a=ea, b=eb, c=ec)))
    return items


ORDERS = [[("nf", False), ("nf", True), ("nf", False)], [("nf", True), ("nf", False)],
          [("steps", False), ("nf", True), ("steps", True), ("nf", False)]]


def _model_from_json(m):
    dom, layers = m
    return (tuple(_t(a) for a in dom),
            tuple(((b[0], tuple(_t(a) for a in b[1]), tuple(_t(a) for a in b[2])), off)
                  for b, off in layers))


def _t(a):
    return tuple(a) if isinstance(a, list) else a


def check_class(params):
    """All obligations for one class, given by a seed recipe."""
    recipe = _norm_recipe(params["recipe"])
    cls = recipe[0]
    m0 = build.to_model(recipe)
    members, capped = model_class(m0)
    connected = ref.box_graph_connected(m0)
    out = []
    stats = dict(members=len(members), capped=capped, connected=connected, steps=0)
    for left in (False, True):
        nfs = {}
        for m in members:
            p = dict(cls=cls, m=m, left=left)
            res = check_member(p)
            out.extend(res)
            if "_nf" in p:
                nfs.setdefault(p["_nf"], m)
            stats["steps"] += p.get("_steps", 0)
            if res:
                break
        stats["nf_count_left=%s" % left] = len(nfs)
        if connected and not capped and not out and len(nfs) != 1:
            ms = list(nfs.items())
            out.append((_sig("not-canonical", [recipe, left]),
                        "class of %s (|class|=%d, connected) has %d distinct normal forms "
                        "(left=%s): e.g. nf(%s) = %s but nf(%s) = %s"
                        % (build.build(recipe), len(members), len(nfs), left,
                           ms[0][1][1], ms[0][0][1], ms[1][1][1], ms[1][0][1])))
        if out:
            break
    if not out:
        for m in members[:8]:
            out.extend(check_foliation(dict(cls=cls, m=m)))
    if not out:
        # the same seed as a rigid diagram (rigid.Diagram overrides normal_form), and request
        # histories on one object in both classes
        for left in (False, True):
            p = dict(cls="rigid", m=m0, left=left)
            out.extend(check_member(p))
            stats["steps"] += p.get("_steps", 0)
        for c in (cls, "rigid"):
            out.extend(check_history(dict(cls=c, m=m0, orders=ORDERS)))
        if connected and len(members) > 1:
            for left in (False, True):
                for hand in ("L", "R"):
                    for t in range(len(m0[1]) + 1):
                        out.extend(check_snaked(dict(m=m0, left=left, hand=hand, t=t, w=t)))
    params["_stats"] = stats
    return out


from mc.core import safe  # noqa: E402
def spiral_recipe(n):
    """The asymptotic worst case for normal_form (arXiv:1804.07832): unit, n caps, counit, n cups."""
    x = "x"
    layers = [(("box", "unit", (), (x,)), 0)]
    for i in range(n):
        layers.append((("box", "cap@%d" % i, (), (x, x)), i))
    layers.append((("box", "counit", (x,), ()), n))
    for i in range(n):
        layers.append((("box", "cup@%d" % i, (x, x), ()), n - i - 1))
    return ("monoidal", (), tuple(layers))


def check_large(params):
    """Large connected diagrams (spirals): member-level obligations for the diagram and for the
    normal forms reached from it; one normal form per flag among the members tried."""
    recipe = _norm_recipe(params["recipe"])
    m0 = build.to_model(recipe)
    out = []
    if not ref.box_graph_connected(m0):
        raise AssertionError("directed family must be connected")
    members = [m0]
    for left in (False, True):
        nfs = {}
        for m in list(members):
            p = dict(cls=recipe[0], m=m, left=left)
            res = check_member(p)
            out.extend(res)
            if res:
                return out
            nfs.setdefault(p["_nf"], m)
            if p["_nf"] not in members:
                members.append(p["_nf"])
            params["_steps"] = params.get("_steps", 0) + p.get("_steps", 0)
        if len(nfs) != 1:
            out.append((_sig("large-not-canonical", params), "members of the class of %s have %d normal forms "
                        "(left=%s)" % (build.build(recipe), len(nfs), left)))
    return out


CASES = {k: safe("C06", f) for k, f in {"class": check_class, "member": check_member, "foliation": check_foliation,
                                        "large": check_large, "history": check_history, "snaked": check_snaked, "fork": check_fork}.items()}


def _stage1(shard):
    """class id of every seed (pure model work)."""
    out = []
    for recipe in shard:
        m = build.to_model(recipe)
        if len(m[1]) < 2:
            out.append((recipe, "trivial:" + digest(repr(m)), 1, False))
            continue
        members, capped = model_class(m)
        cid = class_id(members) if not capped else "capped:" + digest(repr(std_rename(m)))
        out.append((recipe, cid, len(members), capped))
    return out


def _stage2(shard):
    part = Part()
    for recipe in shard:
        params = dict(recipe=recipe)
        res = CASES["class"](params)
        st = params.pop("_stats", None) or dict(members=1, capped=False, connected=False, steps=0)
        part.count("states", st["members"])
        part.count("classes")
        part.count("normalize_runs", 2 * st["members"])
        part.count("transitions", st["steps"])
        part.count("traces_validated_against_impl", st["steps"])
        if st["connected"]:
            part.count("connected_classes")
            part.note("nf_per_connected_class",
                      "%d/%d" % (st.get("nf_count_left=False", 0), st.get("nf_count_left=True", 0)))
            if st["members"] > 1:
                part.seen("nontrivial", repr(recipe))
        else:
            part.count("disconnected_classes")
        if st["capped"]:
            part.count("capped_classes")
        part.note("class_sizes", st["members"], cap=60)
        for sig, msg in res:
            part.violation(sig, msg, "class", params)
        if st["connected"] and st["members"] > 1:
            part.sample(dict(seed=recipe, class_size=st["members"]))
    return part


def universes(ctx):
    sig_x = build.shape_signature(("x",), 2)
    doms_x = build.all_types(("x",), 3)
    # two wire types (a wrong left/middle/right split of a layer only shows with distinct types)
    sig_xy = [s for s in build.shape_signature(("x", "y"), 1)]
    sig_xy += [("box", "sxy_x", ("x", "y"), ("x",)), ("box", "sy_yx", ("y",), ("y", "x")),
               ("box", "sx_xy", ("x",), ("x", "y")), ("box", "syx_", ("y", "x"), ()),
               ("box", "s_xy", (), ("x", "y"))]
    doms_xy = build.all_types(("x", "y"), 3)
    if ctx.quick:
        plan = [("x:depth<=3,width<=3", sig_x, doms_x, 3, 3),
                ("x:depth<=4,width<=2", sig_x, build.all_types(("x",), 2), 4, 2),
                ("xy:depth<=2,width<=3", sig_xy, doms_xy, 2, 3)]
    else:
        plan = [("x:depth<=4,width<=3", sig_x, doms_x, 4, 3),
                ("x:depth<=5,width<=2", sig_x, build.all_types(("x",), 2), 5, 2),
                ("xy:depth<=3,width<=3", sig_xy, doms_xy, 3, 3)]
    ctx.bounds["universes"] = [p[0] for p in plan]
    ctx.bounds["class_cap"] = CLASS_CAP
    for label, sig, doms, depth, width in plan:
        yield label, build.universe("monoidal", sig, doms, depth, width, linear=True)


def run(ctx):
    ctx.rule = ("universe partitioned into interchanger classes (reference BFS); per class, per "
                "member, per left flag: normalize() driven step by step, each step an edge of the "
                "reference move graph; normal_form == last step; idempotent; exactly one normal "
                "form per connected class; NotImplementedError iff the trace cycles and only for "
                "disconnected box graphs; foliation stays in the class. nontrivial = connected "
                "classes with > 1 member")
    ctx.assumptions = ["classes larger than class_cap members are explored up to the cap "
                       "(soundness obligations only, canonicity not asserted for them)",
                       "connected = box graph connected through shared wires"]
    seen = set()
    for label, recipes in universes(ctx):
        items = [r for r in recipes if r not in seen]
        seen.update(items)
        ctx.note("universe_sizes", "%s=%d" % (label, len(items)))
        reps = {}
        for chunk in pmap(_stage1, build.shards(items, 64)):
            for recipe, cid, size, capped in chunk:
                ctx.count("seeds")
                reps.setdefault(cid, recipe)
        reps = [reps[k] for k in sorted(reps)]
        for p in pmap(_stage2, build.shards(reps, 64)):
            ctx.merge(p)
    # equal boxes repeated side by side (non-linear names): a sweep that only exchanges equal boxes
    rep_sig = [("box", "g", (), ("x", "x", "x")), ("box", "f", ("x",), ("x",)), ("box", "h", ("x", "x", "x"), ()),
               ("box", "k", ("x", "x"), ("x",)), ("box", "u", (), ("x",))]
    rep = [r for r in build.universe("monoidal", rep_sig, [()], 5 if ctx.quick else 6, 3) if len(r[2]) >= 3]
    ctx.note("universe_sizes", "repeated-boxes:depth<=%d=%d" % (5 if ctx.quick else 6, len(rep)))
    reps = {}
    for chunk in pmap(_stage1, build.shards(rep, 64)):
        for recipe, cid, size, capped in chunk:
            ctx.count("seeds")
            reps.setdefault(cid, recipe)
    for p in pmap(_stage2, build.shards([reps[k] for k in sorted(reps)], 64)):
        ctx.merge(p)
    # large connected diagrams
    big = [("large", dict(recipe=spiral_recipe(n))) for n in range(1, 6 if ctx.quick else 8)]
    for case, params in big:
        res = CASES[case](params)
        ctx.count("states")
        ctx.count("transitions", params.pop("_steps", 0))
        ctx.count("large_diagrams")
        for sig, msg in res:
            ctx.violation(sig, msg, case, params)
    forks = fork_items(ctx.quick)
    ctx.note("universe_sizes", "forks over the box zoo of every class=%d" % len(forks))
    for case, params in forks:
        res = CASES[case](params)
        ctx.count("states", 2)
        ctx.count("fork_cases")
        for sig, msg in res:
            ctx.violation(sig, msg, case, params)
    ctx.counters["traces_validated_against_impl"] = ctx.counters.get("transitions", 0)
    if ctx.counters.get("capped_classes"):
        ctx.note("capped", "%d classes hit the member cap (disconnected ones)"
                 % ctx.counters["capped_classes"])
