"""In-process adapter giving the installed pyzx (0.10.x) the Graph API the pinned discopy was
written against: list-valued `inputs`/`outputs` attributes (also callable, as pyzx itself now
expects), float phases, and edge_type == 0 for a non-edge.  Nothing else is emulated; no change
to discopy."""
import fractions


def install():
    import pyzx
    from pyzx.graph.graph_s import GraphS

    class CallableList(list):
        def __call__(self):
            return self

    class AdapterGraph(GraphS):
        def __init__(self):
            super().__init__()
            self.inputs = self._inputs = CallableList()
            self.outputs = self._outputs = CallableList()

        def set_inputs(self, inputs):
            self.inputs = self._inputs = CallableList(inputs)

        def set_outputs(self, outputs):
            self.outputs = self._outputs = CallableList(outputs)

        def add_vertex(self, ty=pyzx.VertexType.BOUNDARY, qubit=-1, row=-1, phase=None,
                       ground=False, index=None):
            if phase is not None and not isinstance(phase, fractions.Fraction):
                phase = fractions.Fraction(phase).limit_denominator(10 ** 6)
            return super().add_vertex(ty, qubit, row, phase, ground, index)

        def edge_type(self, e):
            source, target = e
            if source not in self.graph or target not in self.graph[source]:
                return 0
            return super().edge_type(e)

    if not getattr(pyzx, "_mc_adapter", False):
        pyzx.Graph = lambda *args, **kwargs: AdapterGraph()
        pyzx._mc_adapter = True
    return AdapterGraph
