"""C18 -- grammar front-ends only produce well-typed, grammatical derivations.

(A) pregroup: every word sequence up to the length bound over a vocabulary with adjoints, every
target: every diagram returned by eager_parse / yielded by brute_force.
(B) CFG: ChoiceExplorer -- discopy.grammar.cfg.random is replaced by a stub whose shuffle asks
the explorer which eligible production comes first; every sequence of answers is explored by
prefix replay for every grammar / start / limit combination of the menu.
(C) biclosed -> rigid: every rule box (FA BA FC BC FX BX Curry) over nested slash types with
composite sides, every CCG tree up to 3 leaves, cat2ty against a reference parser.
"""
import itertools
import sys

from mc import ref, build
from mc.core import Part, pmap, digest, safe
from mc.build import parse_atom, atom_str


def _sig(kind, params):
    return "C18:%s:%s" % (kind, digest(params))


# ------------------------------------------------------------------ (A) pregroup

VOCAB = {"Alice": ("n",), "loves": ("n.r", "s", "n.l"), "runs": ("n.r", "s"), "that": ("n.r", "n", "s.l", "n"),
         "not": ("s.l", "s"), "who": ("n.r", "n", "s.l.l", "s.l"), "nl": ("n.l",), "nrr": ("n.r.r",), "e": (),
         "sr": ("s.r",), "sl": ("s.l",)}


def word(name):
    from discopy.grammar.pregroup import Word
    k = build.kit("rigid")
    return Word(name, k.ty(VOCAB[name]))


def adjoint_r(a):
    n, z = parse_atom(a)
    return atom_str(n, z + 1)


def check_sentence(words, target, d):
    """Soundness of one returned pregroup diagram."""
    from discopy import rigid
    errs = ref.scan(d)
    if errs:
        return "ill-typed: %s" % errs[:2]
    if len(d.dom) != 0:
        return "dom is %s, expected the empty type" % (d.dom,)
    if ref.ty_key(d.cod) != build.atoms_key(target):
        return "cod is %s, expected %s" % (d.cod, target)
    n = len(words)
    if len(d) < n:
        return "fewer boxes than words"
    off = 0
    for i, w in enumerate(words):
        b = d.boxes[i]
        if str(b.name) != w or ref.ty_key(b.cod) != build.atoms_key(VOCAB[w]) or len(b.dom) != 0:
            return "box %d is %s, expected the word %s" % (i, b, w)
        if d.offsets[i] != off:
            return "word %s at offset %d, expected %d (total width of the previous words)" % (w, d.offsets[i], off)
        off += len(VOCAB[w])
    cur = [a for w in words for a in VOCAB[w]]
    for b, o in zip(d.boxes[n:], d.offsets[n:]):
        if not isinstance(b, rigid.Cup):
            return "box %s after the words is not a Cup" % (b,)
        if o + 1 >= len(cur):
            return "cup offset out of range"
        if adjoint_r(cur[o]) != cur[o + 1]:
            return "Cup at offset %d joins %s and %s which are not (x, x.r)" % (o, cur[o], cur[o + 1])
        if ref.ty_key(b.dom) != build.atoms_key(cur[o:o + 2]):
            return "Cup %s does not have the types of the wires it joins (%s, %s)" % (b, cur[o], cur[o + 1])
        cur = cur[:o] + cur[o + 2:]
    return None


def check_parse(params):
    from discopy.grammar.pregroup import eager_parse
    words, target = list(params["words"]), list(params["target"])
    k = build.kit("rigid")
    out = []
    tgt = k.ty(target)
    if params.get("plain"):      # the target given as a plain monoidal type (what discopy.grammar.cfg exports)
        from discopy import monoidal
        tgt = monoidal.Ty(*target)
    try:
        d = eager_parse(*[word(w) for w in words], target=tgt)
    except NotImplementedError:
        params["_noparse"] = True
        return out
    except Exception as e:  # noqa
        out.append((_sig("parse-raises", params), "eager_parse(%s, target=%s) raised %r" % (words, target, e)))
        return out
    msg = check_sentence(words, target, d)
    if msg:
        out.append((_sig("parse", params), "eager_parse(%s, target=%s) = %s: %s" % (words, target, d, msg)))
    return out


def check_brute(params):
    from discopy.grammar.pregroup import brute_force
    vocab, target, k_yield = list(params["vocab"]), list(params["target"]), params["n"]
    k = build.kit("rigid")
    out = []
    tgt = k.ty(target)
    if params.get("plain"):
        from discopy import monoidal
        tgt = monoidal.Ty(*target)
    gen = brute_force(*[word(w) for w in vocab], target=tgt)
    for t, d in enumerate(itertools.islice(gen, k_yield)):
        words = [str(b.name) for b in d.boxes if str(b.name) in VOCAB and type(b).__name__ == "Word"]
        if any(w not in vocab for w in words):
            out.append((_sig("brute-vocab", params), "yield %d = %s uses words outside the vocabulary" % (t, d)))
            break
        msg = check_sentence(words, target, d)
        if msg:
            out.append((_sig("brute", params), "brute_force(%s, target=%s) yield %d = %s: %s"
                        % (vocab, target, t, d, msg)))
            break
    params["_yields"] = t + 1 if "t" in dir() else 0
    return out


def check_brute_history(params):
    """Several searches in one process, over different vocabularies and targets: each search only
    uses its own words (nothing is carried over from the search before)."""
    out = []
    for vocab, target, n in params["searches"]:
        p = dict(vocab=vocab, target=target, n=n)
        res = check_brute(p)
        if res:
            out.append((_sig("brute-history", params), "after the searches before it in %s: %s" % (params["searches"], res[0][1])))
            break
    return out


# ------------------------------------------------------------------ (B) CFG with a ChoiceExplorer

GRAMMARS = {
    "flat": [("S", ("A", "B")), ("A", ()), ("B", ())],
    "alt": [("S", ("A",)), ("S", ("A", "A")), ("A", ()), ("A", ("B",)), ("B", ())],
    "rec": [("S", ("A", "S")), ("S", ()), ("A", ())],
    "dead": [("S", ("A",)), ("S", ("D",)), ("A", ()), ("D", ("D", "X"))],
    "words": [("S", ("N", "V")), ("N", ()), ("N", ("J", "N")), ("J", ()), ("V", ()), ("V", ("V", "N"))],
    "rigid": [("s", ("n", "v")), ("n", ()), ("n.r", ("x",)), ("x", ()), ("v", ()), ("v.l", ("n",)), ("s.r", ())],
}


def productions(name):
    from discopy.monoidal import Ty, Box
    prods = []
    if name.startswith("rigid"):     # symbols are rigid atoms ('n.r' is not 'n'); the start symbol stays a plain Ty
        from discopy import rigid
        k = build.kit("rigid")
        for i, (lhs, rhs) in enumerate(GRAMMARS[name]):
            prods.append(rigid.Box("p%d:%s->%s" % (i, lhs, "".join(rhs) or "e"), k.ty(list(rhs)), k.ty([lhs])))
        return prods
    for i, (lhs, rhs) in enumerate(GRAMMARS[name]):
        prods.append(Box("p%d:%s->%s" % (i, lhs, "".join(rhs) or "e"), Ty(*rhs), Ty(lhs)))
    return prods


class ChoiceRandom:
    """Stands in for the `random` module inside discopy.grammar.cfg.  shuffle() first restores a
    canonical order, then puts the production chosen by the explorer first."""

    def __init__(self, prefix):
        self.prefix, self.points, self.taken, self.seeded = list(prefix), [], [], []

    def seed(self, x):
        self.seeded.append(x)

    def shuffle(self, lst):
        lst.sort(key=lambda p: str(p.name))
        frame = sys._getframe(1).f_locals
        eligible = list(range(len(lst)))
        if "tag" in frame and "sentence" in frame:
            from discopy.monoidal import Ty
            nt = frame.get("not_twice") or []
            boxes = frame["sentence"].boxes
            eligible = [i for i, p in enumerate(lst)
                        if Ty(frame["tag"]) == p.cod and not (p in nt and p in boxes)]
        n = max(1, len(eligible))
        t = len(self.points)
        c = self.prefix[t] if t < len(self.prefix) else 0
        if c >= n:
            raise RuntimeError("replay diverged: choice %d of %d at point %d" % (c, n, t))
        self.points.append(n)
        self.taken.append(c)
        if eligible:
            lst.insert(0, lst.pop(eligible[c]))


def check_derivation(sentence, prods, start):
    """Reference derivation check: expand the start symbol top-down with the boxes in reverse."""
    from discopy.monoidal import Ty
    errs = ref.scan(sentence)
    if errs:
        return "ill-typed: %s" % errs[:2]
    if len(sentence.dom) != 0:
        return "dom is %s, not the empty (terminal) type" % (sentence.dom,)
    if ref.ty_key(sentence.cod) != (start,):
        return "cod is %s, expected the start symbol %s" % (sentence.cod, start)
    cur = [start]
    for b, off in reversed(list(zip(sentence.boxes, sentence.offsets))):
        if not any(b is p or b == p for p in prods):
            return "box %s is not one of the productions" % (b,)
        if off != 0:
            return "production %s applied at offset %d (leftmost expansion expected)" % (b, off)
        if not cur or ref.ty_key(b.cod) != (cur[0],):
            return "production %s does not rewrite the leftmost symbol of %s" % (b, cur)
        cur = list(ref.ty_key(b.dom)) + cur[1:]
    if cur:
        return "derivation stops at %s, not at the empty string" % (cur,)
    return None


def run_generate(gname, start, kwargs, prefix):
    from discopy.grammar import cfg
    prods = productions(gname)
    stub = ChoiceRandom(prefix)
    saved = cfg.random
    cfg.random = stub
    try:
        kw = dict(kwargs)
        nt = kw.pop("not_twice_idx", None)
        if nt is not None:
            kw["not_twice"] = [prods[i] for i in nt]
        from discopy.monoidal import Ty
        sentences = list(cfg.CFG(*prods).generate(Ty(start), **kw))
    finally:
        cfg.random = saved
    return stub, prods, sentences


def check_cfg(params):
    """All answers of all shuffles for one (grammar, start, limits) by prefix replay."""
    gname, start, kwargs = params["grammar"], params["start"], params["kwargs"]
    out, runs, outcomes = [], 0, set()
    stack = [()]
    cap = params.get("cap", 20000)
    while stack:
        prefix = stack.pop()
        stub, prods, sentences = run_generate(gname, start, kwargs, prefix)
        runs += 1
        if list(stub.taken[:len(prefix)]) != list(prefix):
            raise RuntimeError("replay diverged")
        outcomes.add(tuple(tuple(str(b.name) for b in s.boxes) for s in sentences))
        for s in sentences:
            msg = check_derivation(s, prods, start)
            if msg:
                out.append((_sig("cfg-derivation", params), "CFG %s generate(%s, %s) with shuffle answers %s "
                            "yielded %s: %s" % (gname, start, kwargs, stub.taken, s, msg)))
                break
        ms = kwargs.get("max_sentences")
        if ms and len(sentences) > ms:
            out.append((_sig("cfg-too-many", params), "yielded %d sentences, max_sentences=%d (answers %s)"
                        % (len(sentences), ms, stub.taken)))
        if kwargs.get("remove_duplicates"):
            keys = [ref.diagram_key(s) for s in sentences]
            if len(set(keys)) != len(keys):
                out.append((_sig("cfg-duplicates", params), "remove_duplicates=True but a sentence was yielded "
                            "twice (answers %s)" % (stub.taken,)))
        nt = kwargs.get("not_twice_idx")
        if nt is not None:
            for s in sentences:
                for i in nt:
                    if sum(1 for b in s.boxes if b == prods[i]) > 1:
                        out.append((_sig("cfg-not-twice", params), "production %s appears twice in %s" % (prods[i], s)))
        if out:
            break
        for i in range(len(prefix), len(stub.points)):
            for alt in range(1, stub.points[i]):
                stack.append(tuple(stub.taken[:i]) + (alt,))
        if runs >= cap:
            params["_capped"] = True
            break
    params["_runs"], params["_outcomes"] = runs, len(outcomes)
    return out


# ------------------------------------------------------------------ (C) biclosed -> rigid

def ref_rigid(t):
    """Reference image of a biclosed type in the rigid category, as a tuple of atoms with winding
    numbers:  x << y = x @ y.l ;  x >> y = x.r @ y ; adjoints reverse the list."""
    from discopy import biclosed
    if isinstance(t, biclosed.Over):
        return ref_rigid(t.left) + tuple((n, z - 1) for n, z in reversed(ref_rigid(t.right)))
    if isinstance(t, biclosed.Under):
        return tuple((n, z + 1) for n, z in reversed(ref_rigid(t.left))) + ref_rigid(t.right)
    out = ()
    for i in range(len(t)):
        o = t[i]
        if isinstance(o, (biclosed.Over, biclosed.Under)):
            out += ref_rigid(o)
        else:
            out += ((o.name, 0),)
    return out


def rigid_key(t):
    return tuple((o.name, getattr(o, "z", 0)) for o in t.objects)


def type_exprs(depth, quick):
    base = ["x", "y", "(x @ y)"]
    level = list(base)
    for _ in range(depth):
        nxt = []
        for a in level:
            for b in base if quick or _ else level:
                nxt += ["(%s << %s)" % (a, b), "(%s >> %s)" % (a, b)]
                if a != b:
                    nxt += ["(%s << %s)" % (b, a), "(%s >> %s)" % (b, a)]
        level = sorted(set(level + nxt))
    return level


def box_exprs(quick):
    """Rule boxes over the type menu, as expressions in the biclosed namespace."""
    tys = type_exprs(1, quick)
    overs = [t for t in tys if "<<" in t and t.count("<<") + t.count(">>") == 1]
    unders = [t for t in tys if ">>" in t and t.count("<<") + t.count(">>") == 1]
    nested = [t for t in type_exprs(2, quick) if t.count("<<") + t.count(">>") == 2]
    out = []
    # empty argument / result sides (zero rigid wires)
    overs = overs + ["(x << Ty())", "(Ty() << x)", "((x @ y) << Ty())", "(Ty() << Ty())"]
    unders = unders + ["(Ty() >> x)", "(x >> Ty())", "(Ty() >> (x @ y))", "(Ty() >> Ty())"]
    for o in overs + [t for t in nested if t.startswith("(") and top_op(t) == "<<"][:: (6 if quick else 2)]:
        out.append("FA(%s)" % o)
    for u in unders + [t for t in nested if top_op(t) == ">>"][:: (6 if quick else 2)]:
        out.append("BA(%s)" % u)
    parts = ["x", "y", "(x @ y)", "(x << y)", "(y >> x)", "Ty()"]
    for a, b, c in itertools.product(parts, repeat=3):
        if quick and sum(len(p) > 1 for p in (a, b, c)) > 2:
            continue
        out.append("FC(%s << %s, %s << %s)" % (a, b, b, c))
        out.append("BC(%s >> %s, %s >> %s)" % (a, b, b, c))
        out.append("FX(%s << %s, %s >> %s)" % (a, b, c, b))
        out.append("BX(%s << %s, %s >> %s)" % (a, b, a, c))
    for dom in ("x @ y", "x @ y @ x", "(x << y) @ y @ x", "x @ (y >> x)", "x"):
        for n in (1, 2):
            for left in (False, True):
                out.append("Curry(Box('g', %s, y), %d, %s)" % (dom, n, left))
    # composition rules whose two middle types differ (also only in a nested argument or result):
    # refused, or -- if a constructor accepts it -- still translated type-correctly
    mids = ["y", "(y << x)", "(y << z)", "(x << y)", "(y >> x)", "(y >> z)", "(z >> x)", "((y << x) << z)", "((y << z) << z)"]
    for m1 in mids:
        for m2 in mids:
            if m1 != m2:
                out.append("FC(x << %s, %s << z)" % (m1, m2))
                out.append("BC(x >> %s, %s >> z)" % (m1, m2))
                out.append("FX(x << %s, z >> %s)" % (m1, m2))
                out.append("BX(%s << x, %s >> z)" % (m1, m2))
    # generic boxes and CCG words, with empty and non-empty domains, over the type menu
    menu = ["Ty()", "x", "(x @ y)", "(x << y)", "(y >> x)", "((x << y) << y)", "(x << y) @ y", "(y >> (x << y))"]
    for cod in menu:
        out.append("CcgWord('w', %s)" % cod)
        for dom in menu:
            out.append("Box('f', %s, %s)" % (dom, cod))
            out.append("CcgWord('w', %s, dom=%s)" % (cod, dom))
    from mc import zoo
    out += zoo.entries("biclosed")
    return out


def top_op(t):
    depth = 0
    for i, ch in enumerate(t):
        if ch == "(":
            depth += 1
        elif ch == ")":
            depth -= 1
        elif depth == 1 and t[i:i + 2] in ("<<", ">>"):
            return t[i:i + 2]
    return None


def check_rule(params):
    from discopy.biclosed import biclosed2rigid
    k = build.kit("biclosed")
    out = []
    try:
        b = eval(params["expr"], dict(k.ns))
    except Exception:
        params["_rejected"] = True   # the constructor refuses this combination
        return out
    want_dom, want_cod = ref_rigid(b.dom), ref_rigid(b.cod)
    try:
        img = biclosed2rigid(b)
    except Exception as e:  # noqa
        out.append((_sig("translate-raises", params), "biclosed2rigid(%s : %s -> %s) raised %s: %s"
                    % (params["expr"], b.dom, b.cod, type(e).__name__, str(e)[:120])))
        return out
    if ref.snapshot(biclosed2rigid(b)) != ref.snapshot(img):
        out.append((_sig("second-translation", params), "biclosed2rigid(%s) twice gives two different diagrams" % params["expr"]))
    errs = ref.scan(img)
    if errs:
        out.append((_sig("image-illtyped", params), "image of %s ill-typed: %s" % (params["expr"], errs[:2])))
        return out
    if rigid_key(img.dom) != want_dom or rigid_key(img.cod) != want_cod:
        out.append((_sig("type-not-preserved", params), "biclosed2rigid(%s) : %s -> %s but the images of its "
                    "dom/cod are %s -> %s" % (params["expr"], img.dom, img.cod, want_dom, want_cod)))
    if rigid_key(biclosed2rigid(b.dom)) != want_dom or rigid_key(biclosed2rigid(b.cod)) != want_cod:
        out.append((_sig("type-image", params), "biclosed2rigid on the types of %s: %s, %s; reference %s, %s"
                    % (params["expr"], biclosed2rigid(b.dom), biclosed2rigid(b.cod), want_dom, want_cod)))
    return out


def ref_cat2ty(s):
    """Reference recursive-descent parser for CCG categories -> nested tuple."""
    import re
    s = s.strip()

    def strip_outer(x):
        while x.startswith("(") and matching(x, 0) == len(x) - 1:
            x = x[1:-1]
        return x

    def matching(x, i):
        d = 0
        for j in range(i, len(x)):
            if x[j] == "(":
                d += 1
            elif x[j] == ")":
                d -= 1
                if d == 0:
                    return j
        return -1
    d = 0
    for i, ch in enumerate(s):
        if ch == "(":
            d += 1
        elif ch == ")":
            d -= 1
        elif ch in "\\/" and d == 0:
            l, r = strip_outer(s[:i]), strip_outer(s[i + 1:])
            if ch == "/":
                return ("over", ref_cat2ty(l), ref_cat2ty(r))
            return ("under", ref_cat2ty(r), ref_cat2ty(l))
    return ("atom", re.sub(r"\[[^]]*\]", "", s))


def ty_tree(t):
    from discopy import biclosed
    if isinstance(t, biclosed.Over):
        return ("over", ty_tree(t.left), ty_tree(t.right))
    if isinstance(t, biclosed.Under):
        return ("under", ty_tree(t.left), ty_tree(t.right))
    if len(t) == 1 and isinstance(t[0], (biclosed.Over, biclosed.Under)):
        return ty_tree(t[0])
    if len(t) == 1:
        return ("atom", t[0].name)
    return ("tensor",) + tuple(ty_tree(t[i:i + 1]) for i in range(len(t)))


def cat_strings():
    atoms = ["S", "NP", "N", "S[dcl]"]
    out = list(atoms)
    one = []
    for a, b in itertools.product(atoms[:3] + ["S[dcl]"], repeat=2):
        one += ["%s/%s" % (a, b), "%s\\%s" % (a, b)]
    out += one
    for o in one[::3]:
        for a in atoms[:2]:
            out += ["(%s)/%s" % (o, a), "(%s)\\%s" % (o, a), "%s/(%s)" % (a, o), "%s\\(%s)" % (a, o)]
    return out


def check_cat(params):
    from discopy.grammar.ccg import cat2ty
    s = params["cat"]
    out = []
    try:
        got = ty_tree(cat2ty(s))
    except Exception as e:  # noqa
        out.append((_sig("cat2ty-raises", params), "cat2ty(%r) raised %r" % (s, e)))
        return out
    want = ref_cat2ty(s)
    if got != want:
        out.append((_sig("cat2ty", params), "cat2ty(%r) = %s, reference %s" % (s, got, want)))
    return out


def trees():
    """CCG trees (depccg JSON) of <= 3 leaves built from applications/compositions."""
    def leaf(w, cat):
        return {"word": w, "cat": cat}
    out = []
    out.append(leaf("a", "NP"))
    out.append({"type": "ba", "cat": "S", "children": [leaf("a", "NP"), leaf("b", "S\\NP")]})
    out.append({"type": "fa", "cat": "NP", "children": [leaf("a", "NP/N"), leaf("b", "N")]})
    out.append({"type": "fc", "cat": "S/N", "children": [leaf("a", "S/NP"), leaf("b", "NP/N")]})
    out.append({"type": "conj", "cat": "NP", "children": [leaf("a", "NP"), leaf("b", "NP")]})
    out.append({"type": "ba", "cat": "S", "children": [
        leaf("a", "NP"), {"type": "fa", "cat": "S\\NP", "children": [leaf("b", "(S\\NP)/NP"), leaf("c", "NP")]}]})
    out.append({"type": "fa", "cat": "S", "children": [
        {"type": "fc", "cat": "S/N", "children": [leaf("a", "S/NP"), leaf("b", "NP/N")]}, leaf("c", "N")]})
    out.append({"type": "ba", "cat": "S[dcl]", "children": [
        {"type": "fa", "cat": "NP", "children": [leaf("a", "NP/N"), leaf("b", "N")]}, leaf("c", "S[dcl]\\NP")]})
    out.append({"type": "fa", "cat": "S", "children": [
        leaf("a", "S/(S\\NP)"), {"type": "ba", "cat": "S\\NP", "children": [leaf("b", "NP"), leaf("c", "(S\\NP)\\NP")]}]})
    return out


def check_tree(params):
    from discopy.grammar.ccg import tree2diagram
    from discopy.biclosed import biclosed2rigid
    tree = trees()[params["i"]]
    out = []
    try:
        d = tree2diagram(tree)
    except Exception as e:  # noqa
        out.append((_sig("tree-raises", params), "tree2diagram(tree %d) raised %r" % (params["i"], e)))
        return out
    errs = ref.scan(d)
    if errs:
        out.append((_sig("tree-illtyped", params), "tree2diagram(tree %d) = %s ill-typed: %s" % (params["i"], d, errs[:2])))
        return out
    if len(d.dom) != 0 or ty_tree(d.cod) != ref_cat2ty(tree["cat"]):
        out.append((_sig("tree-type", params), "tree2diagram(tree %d) : %s -> %s, expected Ty() -> %s"
                    % (params["i"], d.dom, d.cod, tree["cat"])))
    try:
        img = biclosed2rigid(d)
    except Exception as e:  # noqa
        out.append((_sig("tree-translate-raises", params), "biclosed2rigid(tree %d = %s) raised %s: %s"
                    % (params["i"], d, type(e).__name__, str(e)[:120])))
        return out
    if ref.scan(img):
        out.append((_sig("tree-image-illtyped", params), "image of tree %d ill-typed: %s" % (params["i"], ref.scan(img)[:2])))
    elif rigid_key(img.dom) != ref_rigid(d.dom) or rigid_key(img.cod) != ref_rigid(d.cod):
        out.append((_sig("tree-type-not-preserved", params), "biclosed2rigid(tree %d) : %s -> %s, reference %s -> %s"
                    % (params["i"], img.dom, img.cod, ref_rigid(d.dom), ref_rigid(d.cod))))
    return out


CASES = {k: safe("C18", f) for k, f in {"parse": check_parse, "brute": check_brute, "cfg": check_cfg, "brute_history": check_brute_history,
                                        "rule": check_rule, "cat": check_cat, "tree": check_tree}.items()}


def _worker(shard):
    part = Part()
    for case, params in shard:
        res = CASES[case](params)
        part.count("states")
        if case == "cfg":
            runs = params.pop("_runs", 0)
            part.count("transitions", runs)
            part.count("cfg_executions", runs)
            part.note("cfg_outcomes", "%s/%s/%s: %d runs, %d distinct outcomes" % (
                params["grammar"], params["start"], sorted(params["kwargs"].items()), runs, params.pop("_outcomes", 0)), cap=80)
            if params.pop("_capped", False):
                part.count("cfg_capped")
            part.seen("nontrivial", repr(sorted((k, repr(v)) for k, v in params.items())))
        else:
            part.count("transitions")
            if params.pop("_noparse", False):
                part.count("no_parse")
            elif params.pop("_rejected", False):
                part.count("constructor_rejected")
            else:
                part.seen("nontrivial", repr(sorted((k, repr(v)) for k, v in params.items())))
            y = params.pop("_yields", None)
            if y is not None:
                part.count("brute_force_yields", y)
        for s_, msg in res:
            part.violation(s_, msg, case, params)
        if case == "parse" and len(part.samples) < 1 and len(params["words"]) == 3:
            part.sample(params)
    return part


def run(ctx):
    items = []
    names = sorted(VOCAB)
    nmax = 3 if ctx.quick else 4
    for n in range(0, nmax + 1):
        for ws in itertools.product(names, repeat=n):
            for target in (("s",), ("n",), (), ("n", "s")):
                if n == 4 and hash_mod((ws, target), 3):
                    continue
                items.append(("parse", dict(words=list(ws), target=list(target))))
                if n <= 2:
                    items.append(("parse", dict(words=list(ws), target=list(target), plain=True)))
    items.append(("brute", dict(vocab=["Alice", "runs", "sr", "e"], target=["s"], n=2, plain=True)))
    # (vocabulary, target, number of yields known to exist: brute_force never ends and only yields
    # successful parses, so asking for more than there are would not terminate)
    for vocab, target, n in ((["Alice", "runs"], ("s",), 1), (["Alice", "loves"], ("s",), 1),
                             (["Alice", "loves", "not", "that"], ("s",), 12 if ctx.quick else 40),
                             (["Alice", "runs", "not", "e"], ("s",), 12 if ctx.quick else 40),
                             (["Alice", "nl", "e"], ("n",), 6), (["Alice", "nl", "e"], (), 4)):
        items.append(("brute", dict(vocab=vocab, target=list(target), n=n)))
    # vocabularies known (from the brute cases above) to have at least that many parses
    S1, S2, S3 = [["Alice", "runs", "not", "e"], ["s"], 6], [["Alice", "loves", "not", "that"], ["s"], 6], [["Alice", "nl", "e"], ["n"], 5]
    for seq in ([S1, S2], [S2, S1], [S3, S1, S2], [S1, S3, S1], [S2, S3, S2]):
        items.append(("brute_history", dict(searches=seq)))
    limits = []
    for md in (1, 2, 3, 4) if ctx.quick else (1, 2, 3, 4, 5):
        for ms in (1, 2):
            for mi in (1, 2, 3):
                for rd in (False, True):
                    limits.append(dict(max_sentences=ms, max_depth=md, max_iter=mi, remove_duplicates=rd))
    for g in sorted(GRAMMARS):
        starts = sorted({lhs for lhs, _ in GRAMMARS[g]})
        if g.startswith("rigid"):
            starts = ["s", "n", "v"]        # plain start symbols; 's.r', 'n.r', 'v.l' are other symbols
        for start in starts[:2] if ctx.quick and not g.startswith("rigid") else starts:
            for kw in limits:
                items.append(("cfg", dict(grammar=g, start=start, kwargs=kw)))
            items.append(("cfg", dict(grammar=g, start=start, kwargs=dict(
                max_sentences=2, max_depth=4, max_iter=3, not_twice_idx=[1]))))
            items.append(("cfg", dict(grammar=g, start=start, kwargs=dict(
                max_sentences=None, max_depth=4, max_iter=2, seed=7))))
    for e in box_exprs(ctx.quick):
        items.append(("rule", dict(expr=e)))
    for t in type_exprs(1 if ctx.quick else 2, ctx.quick):
        items.append(("rule", dict(expr="Box('w', Ty(), %s)" % t)))
    for s in cat_strings():
        items.append(("cat", dict(cat=s)))
    for i in range(len(trees())):
        items.append(("tree", dict(i=i)))
    ctx.bounds.update(sentence_length=nmax, vocabulary=VOCAB, grammars=GRAMMARS,
                      cfg_limits="max_depth<=%d, max_sentences<=2, max_iter<=3" % (4 if ctx.quick else 5))
    ctx.rule = ("pregroup: all word sequences x targets; brute_force prefixes. CFG: every answer of every "
                "shuffle (eligible production first) explored by prefix replay for all grammar/start/limit "
                "combinations; derivation replayed top-down. biclosed: all rule boxes over nested types, "
                "cat2ty vs reference parser, CCG trees. nontrivial = distinct cases that produced a value")
    ctx.assumptions = ["the shuffle stub reads the generator's locals (tag, sentence, not_twice) to merge "
                       "answers that put an ineligible production first (they behave like answer 0)",
                       "soundness of returned parses is checked, not completeness of the eager strategy"]
    for p in pmap(_worker, build.shards(items, 96)):
        ctx.merge(p)
    ctx.counters["traces_validated_against_impl"] = ctx.counters.get("transitions", 0)
    if ctx.counters.get("cfg_capped"):
        ctx.cap_hit("%d CFG explorations hit the execution cap" % ctx.counters["cfg_capped"])


def hash_mod(obj, k):
    return int(digest(repr(obj)), 16) % k
