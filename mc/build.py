"""Recipes (pure data) -> discopy values built through the real public API, and the universe
generators that enumerate recipes.

atom     : 'x' | 'n.l' | 'n.r.r' (rigid adjoints) | int (tensor dimension)
box spec : ('box', name, dom_atoms, cod_atoms[, dagger]) | ('swap', a, b) | ('cup', a, b)
           | ('cap', a, b)
recipe   : (cls, dom_atoms, ((box spec, offset), ...))
A recipe is built by *appending layers*:  d >> Id(left) @ box @ Id(right)  with left/right sliced
from d.cod by the real API -- the "append one layer" transition of the universe BFS.
"""
import itertools


def parse_atom(a):
    """'n.r.r' -> ('n', 2); 'x' -> ('x', 0)"""
    if not isinstance(a, str):
        return a, 0
    parts = a.split(".")
    z = 0
    for p in parts[1:]:
        z += 1 if p == "r" else -1
    return parts[0], z


def atom_key(a):
    """Same convention as ref.ob_key."""
    name, z = parse_atom(a)
    return (name, z) if z else name


def atoms_key(atoms):
    return tuple(atom_key(a) for a in atoms)


def atom_str(name, z):
    return name + (".r" * z if z > 0 else ".l" * (-z))


def adj(a, k):
    name, z = parse_atom(a)
    return atom_str(name, z + k)


class Kit:
    """How to make types / boxes / identities in one diagram class."""

    def __init__(self, cls):
        self.cls = cls
        if cls == "monoidal":
            from discopy import monoidal as m
            self.Ty, self.Box, self.Id, self.Diagram, self.Swap = \
                m.Ty, m.Box, m.Id, m.Diagram, m.Swap
        elif cls == "rigid":
            from discopy import rigid as m
            self.Ty, self.Box, self.Id, self.Diagram, self.Swap = \
                m.Ty, m.Box, m.Id, m.Diagram, m.Swap
            self.Cup, self.Cap, self.Ob = m.Cup, m.Cap, m.Ob
        else:
            raise ValueError(cls)
        self.m = m

    def ty(self, atoms):
        if self.cls == "rigid":
            return self.Ty(*[self.Ob(*parse_atom(a)) for a in atoms])
        return self.Ty(*atoms)

    def box(self, spec):
        kind = spec[0]
        if kind == "box":
            kw = dict(data=spec[5]) if len(spec) > 5 else {}
            if len(spec) > 5 and isinstance(kw["data"], tuple):
                kw["data"] = list(kw["data"])
            b = self.Box(spec[1], self.ty(spec[2]), self.ty(spec[3]), **kw)
            if len(spec) > 4 and spec[4]:
                b = self.Box(spec[1], self.ty(spec[3]), self.ty(spec[2]), **kw).dagger()
            return b
        if kind == "swap":
            return self.Swap(self.ty([spec[1]]), self.ty([spec[2]]))
        if kind == "cup":
            return self.Cup(self.ty([spec[1]]), self.ty([spec[2]]))
        if kind == "cap":
            return self.Cap(self.ty([spec[1]]), self.ty([spec[2]]))
        raise ValueError(spec)

    def build(self, dom, layers):
        d = self.Id(self.ty(dom))
        for spec, off in layers:
            b = self.box(spec)
            left, right = d.cod[:off], d.cod[off + len(b.dom):]
            d = d >> self.Id(left) @ b @ self.Id(right)
        return d


_KITS = {}


def kit(cls):
    if cls not in _KITS:
        _KITS[cls] = Kit(cls)
    return _KITS[cls]


def build(recipe):
    if recipe[0] == "zoo":      # ("zoo", cls, expr): a value of the box zoo, as a diagram
        from mc import zoo
        v = zoo.value(recipe[1], recipe[2])
        return v.id(v.dom) >> v
    cls, dom, layers = recipe
    return kit(cls).build(dom, layers)


def spec_io(spec):
    """(dom atoms, cod atoms) of a box spec."""
    k = spec[0]
    if k == "box":
        return tuple(spec[2]), tuple(spec[3])
    if k == "swap":
        return (spec[1], spec[2]), (spec[2], spec[1])
    if k == "cup":
        return (spec[1], spec[2]), ()
    if k == "cap":
        return (), (spec[1], spec[2])
    raise ValueError(spec)


def spec_name(spec):
    return spec[1] if spec[0] == "box" else "%s(%s,%s)" % spec[:3]


def to_model(recipe, unique=False):
    """M-diagram (see mc.ref) of a recipe; with unique=True occurrence t is named '<name>#t'."""
    cls, dom, layers = recipe
    out = []
    for t, (spec, off) in enumerate(layers):
        bd, bc = spec_io(spec)
        name = spec_name(spec) + ("#%d" % t if unique else "")
        out.append(((name, atoms_key(bd), atoms_key(bc)), off))
    return atoms_key(dom), tuple(out)


# ------------------------------------------------------------------ signatures

def shape_signature(atoms=("x",), k=2, named=None):
    """One box per arity shape (dom, cod) over `atoms` with |dom|, |cod| <= k."""
    tys = [t for n in range(k + 1) for t in itertools.product(atoms, repeat=n)]
    sig = []
    for d in tys:
        for c in tys:
            name = "s" + "".join(d) + "_" + "".join(c)
            sig.append(("box", name, d, c))
    return sig


def universe(cls, sig, doms, max_depth, max_width, linear=False, min_depth=0):
    """All recipes of depth <= max_depth whose every intermediate type has <= max_width wires,
    level by level (BFS on the append-one-layer transition).  In linear mode the box appended
    at depth t gets the name '<name>@t' so that every occurrence is distinguishable."""
    level = [(tuple(dom), (), tuple(dom)) for dom in doms]
    for depth in range(max_depth + 1):
        if depth >= min_depth:
            for dom, layers, cod in level:
                yield (cls, dom, layers)
        if depth == max_depth:
            break
        nxt = []
        for dom, layers, cod in level:
            for spec in sig:
                bd, bc = spec_io(spec)
                if len(cod) - len(bd) + len(bc) > max_width:
                    continue
                for off in range(len(cod) - len(bd) + 1):
                    if cod[off:off + len(bd)] != bd:
                        continue
                    s = spec
                    if linear and spec[0] == "box":
                        s = ("box", "%s@%d" % (spec[1], depth)) + tuple(spec[2:])
                    nxt.append((dom, layers + ((s, off),),
                                cod[:off] + bc + cod[off + len(bd):]))
        level = nxt


def all_types(atoms, max_len):
    return [t for n in range(max_len + 1) for t in itertools.product(atoms, repeat=n)]


def shards(items, n):
    """Split a list into n interleaved shards (deterministic)."""
    items = list(items)
    return [items[i::n] for i in range(n) if items[i::n]]


def rigid_signature(name="n", windings=(-1, 0, 1), generic=True, swaps=True):
    """Cups/caps/swaps and a few generic boxes over the adjoints of one basic type."""
    atoms = [atom_str(name, z) for z in windings]
    zs = set(windings)
    sig = []
    for za in windings:
        for zb in windings:
            if abs(za - zb) == 1:  # every adjoint pair, in both orders
                sig.append(("cap", atom_str(name, za), atom_str(name, zb)))
                sig.append(("cup", atom_str(name, za), atom_str(name, zb)))
    if swaps:
        for a in atoms[:2]:
            for b in atoms[:2]:
                sig.append(("swap", a, b))
    if generic:
        base = atom_str(name, 0)
        for a in atoms:
            sig.append(("box", "f_" + a, (a,), (a,)))
        sig += [("box", "g", (base,), (base, base)), ("box", "h", (base, base), (base,)),
                ("box", "u", (), (base,)), ("box", "e", (base,), ()), ("box", "s", (), ()),
                ("box", "gd", (base, base), (base,), True)]
    return atoms, sig


# ------------------------------------------------------------------ kits for the other classes

def generic_data(name, n, seed=0):
    """Deterministic small Gaussian integers (as Python complex) for a tensor box."""
    from mc.core import digest
    s = int(digest("%s/%d" % (name, seed)), 16) % 97
    return [complex((7 * k + 13 * s) % 11 - 5, (5 * k + s) % 7 - 3) for k in range(n)]


class ExprKit(Kit):
    """Classes whose boxes are written as expressions evaluated in the class namespace:
    spec ('e', "<python expression>") e.g. ('e', 'Rz(0.3)'), ('e', 'Z(1, 2, 0.25)').
    tensor also has ('tbox', name, dom_dims, cod_dims[, dagger])."""

    def __init__(self, cls):  # noqa
        self.cls = cls
        self._io = {}
        if cls == "tensor":
            from discopy import tensor as m
            self.ns = {k: getattr(m, k) for k in ("Dim", "Box", "Swap", "Spider", "Id", "Cup", "Cap")}
            self.Ty, self.Id, self.Diagram, self.Swap, self.Box = m.Dim, m.Id, m.Diagram, m.Swap, m.Box
        elif cls == "circuit":
            from discopy.quantum import circuit as m
            from discopy.quantum import gates as g
            self.ns = dict(vars(g))
            self.ns.update({k: getattr(m, k) for k in (
                "Measure", "Encode", "Discard", "MixedState", "Swap", "bit", "qubit", "Id")})
            self.Ty, self.Id, self.Diagram, self.Swap, self.Box = m.Ty, m.Id, m.Circuit, m.Swap, m.Box
        elif cls == "zx":
            from discopy.quantum import zx as m
            self.ns = {k: getattr(m, k) for k in ("Z", "X", "Y", "H", "SWAP", "scalar", "Id")}
            self.Ty, self.Id, self.Diagram, self.Swap, self.Box = m.PRO, m.Id, m.Diagram, m.Swap, m.Box
        elif cls == "biclosed":
            from discopy import biclosed as m
            self.ns = {k: getattr(m, k) for k in (
                "Ty", "Over", "Under", "Box", "FA", "BA", "FC", "BC", "FX", "BX", "Curry", "Id")}
            self.ns.update(x=m.Ty("x"), y=m.Ty("y"), z=m.Ty("z"))
            from discopy.grammar import ccg
            self.ns.update(CcgWord=ccg.Word, Diagram=m.Diagram)
            self.Ty, self.Id, self.Diagram, self.Box = m.Ty, m.Id, m.Diagram, m.Box
        elif cls == "cartesian":
            from discopy import cartesian as m
            self.ns = {k: getattr(m, k) for k in ("Box", "Id", "SWAP", "COPY", "DISCARD", "ADD")}
            self.ns["sym"] = symbolic_function
            self.Ty, self.Id, self.Diagram, self.Box = m.PRO, m.Id, m.Diagram, m.Box
        else:
            raise ValueError(cls)
        self.m = m

    def ty(self, atoms):
        if self.cls == "tensor":
            return self.Ty(*atoms)
        if self.cls == "circuit":
            t = self.ns["qubit"] ** 0
            for a in atoms:
                t = t @ self.ns[a]
            return t
        if self.cls in ("zx", "cartesian"):
            return self.Ty(len(atoms))
        if self.cls == "biclosed":
            t = self.Ty()
            for a in atoms:
                t = t @ eval(a, dict(self.ns))
            return t
        raise ValueError(self.cls)

    def ident(self, atoms):
        if self.cls == "cartesian":
            return self.Id(len(atoms))
        if self.cls == "zx":
            return self.Id(len(atoms))
        return self.Id(self.ty(atoms))

    def box(self, spec):
        if spec[0] == "e":
            return eval(spec[1], dict(self.ns))
        if spec[0] == "tbox":
            dom, cod = self.Ty(*spec[2]), self.Ty(*spec[3])
            n = 1
            for d in tuple(spec[2]) + tuple(spec[3]):
                n *= d
            if len(spec) > 4 and spec[4]:
                return self.Box(spec[1], cod, dom, generic_data(spec[1], n)).dagger()
            return self.Box(spec[1], dom, cod, generic_data(spec[1], n))
        raise ValueError(spec)

    def io(self, spec):
        key = repr(spec)
        if key not in self._io:
            from mc import ref
            b = self.box(spec)
            self._io[key] = (self.atoms_of(b.dom), self.atoms_of(b.cod))
        return self._io[key]

    def atoms_of(self, t):
        if self.cls == "biclosed":
            return tuple(biclosed_str(t[i:i + 1]) for i in range(len(t)))
        return tuple(o.name for o in t.objects)

    def build(self, dom, layers):
        d = self.ident(dom)
        for spec, off in layers:
            b = self.box(spec)
            left, right = d.cod[:off], d.cod[off + len(b.dom):]
            d = d >> self.Diagram.id(left) @ b @ self.Diagram.id(right)
        return d


def biclosed_str(t):
    """Expression (over x, y, z, <<, >>) that rebuilds a one-object biclosed type."""
    from discopy import biclosed
    if isinstance(t, biclosed.Over):
        return "(%s << %s)" % (biclosed_str(t.left), biclosed_str(t.right))
    if isinstance(t, biclosed.Under):
        return "(%s >> %s)" % (biclosed_str(t.left), biclosed_str(t.right))
    if len(t) == 1:
        o = t[0]
        if isinstance(o, (biclosed.Over, biclosed.Under)):
            return biclosed_str(o)
        return str(o.name)
    return "(" + " @ ".join(biclosed_str(t[i:i + 1]) for i in range(len(t))) + ")" if len(t) else "Ty()"


CALL_LOG = []      # (name, args) of every call of a symbolic function, in order (cleared by the cases that read it)


def symbolic_function(name, n_out):
    """Injective symbolic function: returns the n_out strings '<name><k>(<args>)'."""
    def f(*args):
        CALL_LOG.append((name, tuple(map(str, args))))
        outs = tuple("%s%d(%s)" % (name, k, ",".join(map(str, args))) for k in range(n_out))
        return outs[0] if n_out == 1 else outs
    f.__name__ = name
    return f


def kit(cls):  # noqa: F811
    if cls not in _KITS:
        _KITS[cls] = Kit(cls) if cls in ("monoidal", "rigid") else ExprKit(cls)
    return _KITS[cls]


def expr_universe(cls, sig, doms, max_depth, max_width):
    """universe() for ExprKit classes: dom/cod of each spec is read from the real generator."""
    k = kit(cls)
    level = [(tuple(dom), (), tuple(dom)) for dom in doms]
    for depth in range(max_depth + 1):
        for dom, layers, cod in level:
            yield (cls, dom, layers)
        if depth == max_depth:
            break
        nxt = []
        for dom, layers, cod in level:
            for spec in sig:
                bd, bc = k.io(spec)
                if len(cod) - len(bd) + len(bc) > max_width:
                    continue
                for off in range(len(cod) - len(bd) + 1):
                    if tuple(cod[off:off + len(bd)]) == tuple(bd):
                        nxt.append((dom, layers + ((spec, off),), cod[:off] + tuple(bc) + cod[off + len(bd):]))
        level = nxt
