"""Recipes (pure data) -> discopy values built through the real public API, and the universe
generators that enumerate recipes.

atom     : 'x' | 'n.l' | 'n.r.r' (rigid adjoints) | int (tensor dimension)
box spec : ('box', name, dom_atoms, cod_atoms[, dagger]) | ('swap', a, b) | ('cup', a, b)
           | ('cap', a, b)
recipe   : (cls, dom_atoms, ((box spec, offset), ...))
A recipe is built by *appending layers*:  d >> Id(left) @ box @ Id(right)  with left/right sliced
from d.cod by the real API -- the "append one layer" transition of the universe BFS.
"""
import itertools


def parse_atom(a):
    """'n.r.r' -> ('n', 2); 'x' -> ('x', 0)"""
    if not isinstance(a, str):
        return a, 0
    parts = a.split(".")
    z = 0
    for p in parts[1:]:
        z += 1 if p == "r" else -1
    return parts[0], z


def atom_key(a):
    """Same convention as ref.ob_key."""
    name, z = parse_atom(a)
    return (name, z) if z else name


def atoms_key(atoms):
    return tuple(atom_key(a) for a in atoms)


def atom_str(name, z):
    return name + (".r" * z if z > 0 else ".l" * (-z))


def adj(a, k):
    name, z = parse_atom(a)
    return atom_str(name, z + k)


class Kit:
    """How to make types / boxes / identities in one diagram class."""

    def __init__(self, cls):
        self.cls = cls
        if cls == "monoidal":
            from discopy import monoidal as m
            self.Ty, self.Box, self.Id, self.Diagram, self.Swap = \
                m.Ty, m.Box, m.Id, m.Diagram, m.Swap
        elif cls == "rigid":
            from discopy import rigid as m
            self.Ty, self.Box, self.Id, self.Diagram, self.Swap = \
                m.Ty, m.Box, m.Id, m.Diagram, m.Swap
            self.Cup, self.Cap, self.Ob = m.Cup, m.Cap, m.Ob
        else:
            raise ValueError(cls)
        self.m = m

    def ty(self, atoms):
        if self.cls == "rigid":
            return self.Ty(*[self.Ob(*parse_atom(a)) for a in atoms])
        return self.Ty(*atoms)

    def box(self, spec):
        kind = spec[0]
        if kind == "box":
            b = self.Box(spec[1], self.ty(spec[2]), self.ty(spec[3]))
            if len(spec) > 4 and spec[4]:
                b = self.Box(spec[1], self.ty(spec[3]), self.ty(spec[2])).dagger()
            return b
        if kind == "swap":
            return self.Swap(self.ty([spec[1]]), self.ty([spec[2]]))
        if kind == "cup":
            return self.Cup(self.ty([spec[1]]), self.ty([spec[2]]))
        if kind == "cap":
            return self.Cap(self.ty([spec[1]]), self.ty([spec[2]]))
        raise ValueError(spec)

    def build(self, dom, layers):
        d = self.Id(self.ty(dom))
        for spec, off in layers:
            b = self.box(spec)
            left, right = d.cod[:off], d.cod[off + len(b.dom):]
            d = d >> self.Id(left) @ b @ self.Id(right)
        return d


_KITS = {}


def kit(cls):
    if cls not in _KITS:
        _KITS[cls] = Kit(cls)
    return _KITS[cls]


def build(recipe):
    cls, dom, layers = recipe
    return kit(cls).build(dom, layers)


def spec_io(spec):
    """(dom atoms, cod atoms) of a box spec."""
    k = spec[0]
    if k == "box":
        return tuple(spec[2]), tuple(spec[3])
    if k == "swap":
        return (spec[1], spec[2]), (spec[2], spec[1])
    if k == "cup":
        return (spec[1], spec[2]), ()
    if k == "cap":
        return (), (spec[1], spec[2])
    raise ValueError(spec)


def spec_name(spec):
    return spec[1] if spec[0] == "box" else "%s(%s,%s)" % spec[:3]


def to_model(recipe, unique=False):
    """M-diagram (see mc.ref) of a recipe; with unique=True occurrence t is named '<name>#t'."""
    cls, dom, layers = recipe
    out = []
    for t, (spec, off) in enumerate(layers):
        bd, bc = spec_io(spec)
        name = spec_name(spec) + ("#%d" % t if unique else "")
        out.append(((name, atoms_key(bd), atoms_key(bc)), off))
    return atoms_key(dom), tuple(out)


# ------------------------------------------------------------------ signatures

def shape_signature(atoms=("x",), k=2, named=None):
    """One box per arity shape (dom, cod) over `atoms` with |dom|, |cod| <= k."""
    tys = [t for n in range(k + 1) for t in itertools.product(atoms, repeat=n)]
    sig = []
    for d in tys:
        for c in tys:
            name = "s" + "".join(d) + "_" + "".join(c)
            sig.append(("box", name, d, c))
    return sig


def universe(cls, sig, doms, max_depth, max_width, linear=False, min_depth=0):
    """All recipes of depth <= max_depth whose every intermediate type has <= max_width wires,
    level by level (BFS on the append-one-layer transition).  In linear mode the box appended
    at depth t gets the name '<name>@t' so that every occurrence is distinguishable."""
    level = [(tuple(dom), (), tuple(dom)) for dom in doms]
    for depth in range(max_depth + 1):
        if depth >= min_depth:
            for dom, layers, cod in level:
                yield (cls, dom, layers)
        if depth == max_depth:
            break
        nxt = []
        for dom, layers, cod in level:
            for spec in sig:
                bd, bc = spec_io(spec)
                if len(cod) - len(bd) + len(bc) > max_width:
                    continue
                for off in range(len(cod) - len(bd) + 1):
                    if cod[off:off + len(bd)] != bd:
                        continue
                    s = spec
                    if linear and spec[0] == "box":
                        s = ("box", "%s@%d" % (spec[1], depth)) + tuple(spec[2:])
                    nxt.append((dom, layers + ((s, off),),
                                cod[:off] + bc + cod[off + len(bd):]))
        level = nxt


def all_types(atoms, max_len):
    return [t for n in range(max_len + 1) for t in itertools.product(atoms, repeat=n)]


def shards(items, n):
    """Split a list into n interleaved shards (deterministic)."""
    items = list(items)
    return [items[i::n] for i in range(n) if items[i::n]]


def rigid_signature(name="n", windings=(-1, 0, 1), generic=True, swaps=True):
    """Cups/caps/swaps and a few generic boxes over the adjoints of one basic type."""
    atoms = [atom_str(name, z) for z in windings]
    zs = set(windings)
    sig = []
    for za in windings:
        for zb in windings:
            if abs(za - zb) == 1:  # every adjoint pair, in both orders
                sig.append(("cap", atom_str(name, za), atom_str(name, zb)))
                sig.append(("cup", atom_str(name, za), atom_str(name, zb)))
    if swaps:
        for a in atoms[:2]:
            for b in atoms[:2]:
                sig.append(("swap", a, b))
    if generic:
        base = atom_str(name, 0)
        for a in atoms:
            sig.append(("box", "f_" + a, (a,), (a,)))
        sig += [("box", "g", (base,), (base, base)), ("box", "h", (base, base), (base,)),
                ("box", "u", (), (base,)), ("box", "e", (base,), ()), ("box", "s", (), ()),
                ("box", "gd", (base, base), (base,), True)]
    return atoms, sig
