"""C16 -- circuits translate to ZX diagrams denoting the same linear map (up to one scalar).

Space: every supported gate at every grid phase, kets/bras of every bitstring of length <= 2,
every pure circuit up to the bound over that alphabet -> circuit2zx; every ZX diagram up to
the bound -> dagger.
Oracle: textbook interpretation of ZX generators (mc.qref.zx_ref) vs the product of pytket's
unitaries (mc.qref.pure_ref), proportionality with one non-zero factor.
"""
import itertools

import numpy as np

from mc import ref, build, qref
from mc.core import Part, pmap, digest, safe

GRID = [0, 0.25, 0.3, 0.5, -0.7, 1.25]


def _sig(kind, params):
    return "C16:%s:%s" % (kind, digest(params))


def gate_exprs():
    out = ["H", "X", "Y", "Z", "CX", "CZ", "SWAP"]
    for r in ("Rx", "Rz", "CRz", "CRx", "CU1"):
        out += ["%s(%r)" % (r, p) for p in GRID]
    for n in (1, 2):
        for b in itertools.product((0, 1), repeat=n):
            out += ["Ket(%s)" % ", ".join(map(str, b)), "Bra(%s)" % ", ".join(map(str, b))]
    out += ["scalar(0.5j)", "scalar(-2)"]
    # phases that print like a grid phase (names keep 3 significant digits) but differ
    out += ["Rz(0.3004)", "Rx(0.2996)", "CRz(0.3004)", "CU1(0.2996)", "CRx(0.3004)", "Rz(1.2504)", "Rz(0.3)", "CRz(0.3)"]
    # supported gates reached another way: daggers of self-adjoint gates, hand-built controlled gates,
    # daggers of whole circuits, cups and caps of qubits
    out += ["H.dagger()", "X.dagger()", "Z.dagger()", "CX.dagger()", "CZ.dagger()", "Controlled(X)", "Controlled(Z)",
            "(H @ X >> CX).dagger()", "(Ket(0) @ H >> CX >> Rz(0.3) @ Id(1)).dagger()", "(CRz(0.3) >> CX).dagger()",
            "Circuit.caps(qubit, qubit)", "Circuit.cups(qubit, qubit)", "Circuit.caps(qubit @ qubit, qubit @ qubit)",
            "CX.transpose()", "(H >> Rx(0.3)).transpose()"]
    return out


def circuit_sig(quick):
    ph = [0.3, -0.7] if quick else [0.25, 0.3, -0.7, 1.25]
    sig = [("e", x) for x in ("H", "X", "Y", "Z", "CX", "CZ", "SWAP", "Ket(0)", "Ket(1)", "Ket(0, 1)",
                              "Bra(1)", "Bra(1, 0)", "Bra(0)", "scalar(0.5j)")]
    for r in ("Rx", "Rz", "CRz", "CRx", "CU1"):
        sig += [("e", "%s(%r)" % (r, p)) for p in ph]
    sig += [("e", "Rz(0.3004)"), ("e", "CRz(0.2996)")]
    return sig


def supported(c):
    """Is every box of the circuit in the gate set circuit2zx documents (kets, bras, Rz, Rx, CRz,
    CRx, CU1, pure scalars, swaps, and the gates named H, X, Y, Z, CX, CZ -- however the box was
    built: CX.dagger(), Controlled(X) and H.dagger() are those gates)?"""
    from discopy.quantum import gates, circuit
    for b in c.boxes:
        if isinstance(b, (gates.Ket, gates.Bra, gates.Rz, gates.Rx, gates.CRz, gates.CRx, gates.CU1, circuit.Swap)):
            continue
        if isinstance(b, gates.Scalar) and not b.is_mixed:
            continue
        if isinstance(b, gates.QuantumGate) and b._name in ("H", "X", "Y", "Z", "CX", "CZ") and \
                (not b.is_dagger or b._name != "Y"):
            continue
        return False
    return True


def check_circuit(params):
    from discopy.quantum.zx import circuit2zx
    recipe = norm(params["recipe"]) if "recipe" in params else ("circuit", None, None)
    if "expr" in params:
        from mc import zoo
        c = zoo.value("circuit", params["expr"])
    elif "zoo" in params:
        from mc import zoo
        c = zoo.value("circuit", params["zoo"])
    else:
        c = build.build(recipe)
    out = []

    def bad(kind, msg):
        out.append((_sig(kind, params), "%s: %s" % (c, msg)))
    try:
        z = circuit2zx(c)
    except (KeyError, NotImplementedError) as e:
        if "zoo" in params and not supported(c):         # a gate outside the supported set: refused
            params["_refused"] = True
            return out
        bad("raises", "circuit2zx raised %s: %s" % (type(e).__name__, str(e)[:120]))
        return out
    except Exception as e:  # noqa
        bad("raises", "circuit2zx raised %s: %s" % (type(e).__name__, str(e)[:120]))
        return out
    errs = ref.scan(z)
    if errs:
        bad("illtyped", "ZX image ill-typed: %s" % errs[:2])
        return out
    snap = ref.snapshot(c)
    z2 = circuit2zx(c)
    if ref.snapshot(z2) != ref.snapshot(z) or ref.snapshot(c) != snap:
        bad("second-translation", "translating the same circuit again gives %s (first %s), or the circuit was changed" % (z2, z))
    if len(z.dom) != len(c.dom) or len(z.cod) != len(c.cod):
        bad("wires", "ZX image : %d -> %d wires, circuit : %d -> %d" % (len(z.dom), len(z.cod), len(c.dom), len(c.cod)))
        return out
    want = qref.pure_ref(c)
    got = qref.zx_ref(z)
    if np.all(np.abs(want) < 1e-12):
        params["_zero"] = True      # the circuit denotes 0: proportionality says nothing
        if not np.all(np.abs(got) < 1e-9):
            bad("nonzero-for-zero", "the circuit evaluates to 0 but its ZX image does not")
        return out
    ok, lam = qref.proportional(got, want)
    if not ok:
        bad("not-proportional", "the ZX image %s does not denote a non-zero multiple of the circuit's "
            "evaluation (ratio at the largest entry: %s)" % (z, None if lam is None else np.round(lam, 4)))
    return out


def zx_sig():
    sig = []
    for i, j in itertools.product(range(3), repeat=2):
        if 0 < i + j <= 3:
            for p in (0, 0.25, 0.3):
                sig.append(("e", "Z(%d, %d, %r)" % (i, j, p)))
                sig.append(("e", "X(%d, %d, %r)" % (i, j, p)))
    sig += [("e", "H"), ("e", "SWAP"), ("e", "scalar(0.5j)"), ("e", "scalar(0.3)")]
    return sig


def check_zx_dagger(params):
    d = build.build(norm(params["recipe"]))
    out = []
    a = qref.zx_ref(d)
    try:
        dg = d.dagger()
        b = qref.zx_ref(dg)
    except Exception as e:  # noqa
        out.append((_sig("dagger-raises", params), "%s: dagger raised %r" % (d, e)))
        return out
    if ref.scan(dg):
        out.append((_sig("dagger-illtyped", params), "%s: dagger ill-typed %s" % (d, ref.scan(dg)[:2])))
    elif not qref.close(b, a.conj().T):
        out.append((_sig("dagger", params), "the dagger %s of %s does not denote the conjugate transpose" % (dg, d)))
    return out


def norm(r):
    def t(x):
        return tuple(t(y) for y in x) if isinstance(x, (list, tuple)) else x
    return t(r)


CASES = {k: safe("C16", f) for k, f in {"circuit": check_circuit, "zx_dagger": check_zx_dagger}.items()}


def _worker(shard):
    part = Part()
    for case, params in shard:
        res = CASES[case](params)
        part.count("transitions")
        part.count("states")
        if params.pop("_zero", False):
            part.count("zero_valued_circuits")
        if params.pop("_refused", False):
            part.count("refused_unsupported_gate")
        part.seen("nontrivial", repr(sorted((k, repr(v)) for k, v in params.items())))
        for s_, msg in res:
            part.violation(s_, msg, case, params)
        if case == "circuit" and "recipe" in params and len(part.samples) < 1 and len(params["recipe"][2]) == 2:
            part.sample(params)
    return part


def run(ctx):
    depth = 2 if ctx.quick else 3
    items = [("circuit", dict(expr=e)) for e in gate_exprs()]
    doms = [("qubit",) * n for n in range(4)]
    uni = list(build.expr_universe("circuit", circuit_sig(ctx.quick), doms, depth, 3))
    if ctx.quick:
        pass  # complete at this depth in the quick tier
    elif depth == 3:
        uni = [r for r in uni if len(r[2]) <= 2] + [r for r in uni if len(r[2]) == 3][::30]
        ctx.cap_hit("depth-3 circuits enumerated with stride 30 (depth <= 2 complete)")
    items += [("circuit", dict(recipe=r)) for r in uni]
    # the box zoo: every pure box constructor x flag variant (controlled gates built with
    # Controlled(...), daggers, user-defined gates): translated correctly or refused
    from mc import zoo
    for e in zoo.entries("circuit"):
        v = zoo.value("circuit", e)
        if not hasattr(v, "is_mixed") or v.is_mixed or v.free_symbols \
                or any(o.name != "qubit" for b in v.boxes for t in (b.dom, b.cod) for o in t.objects) \
                or any(type(b).__name__ in ("Box", "Bubble") or not hasattr(b, "name") for b in v.boxes):
            continue
        try:
            qref.pure_ref(v.id(v.dom) >> v)
        except KeyError:
            continue
        items.append(("circuit", dict(zoo=e)))
    zuni = list(build.expr_universe("zx", zx_sig(), [(), (1,), (1, 1)], 2 if ctx.quick else 3, 3))
    if ctx.quick:
        pass  # complete at this depth in the quick tier
    else:
        zuni = [r for r in zuni if len(r[2]) <= 2] + [r for r in zuni if len(r[2]) == 3][::40]
    items += [("zx_dagger", dict(recipe=r)) for r in zuni]
    ctx.bounds.update(phase_grid=GRID, circuit_depth=depth, qubits=3, zx_diagrams=len(zuni))
    ctx.note("sizes", "%d gates, %d circuits, %d zx diagrams" % (len(gate_exprs()), len(uni), len(zuni)))
    ctx.rule = ("every supported gate at every grid phase and every pure circuit up to the bound: the "
                "reference value of circuit2zx(c) is a non-zero multiple of the reference value of c, "
                "same wires, well-typed; every ZX diagram up to the bound: dagger denotes the conjugate "
                "transpose. nontrivial = distinct cases")
    ctx.assumptions = ["textbook ZX semantics in mc/qref.py; pytket unitaries; tolerance 1e-9",
                       "circuits that evaluate to 0 (e.g. orthogonal ket/bra) are counted separately: "
                       "proportionality is not decidable for them"]
    for p in pmap(_worker, build.shards(items, 96)):
        ctx.merge(p)
    ctx.counters["traces_validated_against_impl"] = ctx.counters.get("transitions", 0)
