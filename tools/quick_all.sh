#!/bin/bash
# Run the 20 quick checks against /repo (default seed), one after the other; prints one line per check
# and exits non-zero if any check fails.  Evidence files are (re)written by the checks themselves.
cd /verif
rc=0
for i in 01 02 03 04 05 06 07 08 09 10 11 12 13 14 15 16 17 18 19 20; do
  out=$(/venv/bin/python -m mc.run C$i --tier quick 2>&1); e=$?
  echo "$out" | grep -E "^C$i tier=" | cut -c1-220
  echo "$out" | grep -E "^VIOLATION" | head -3
  if [ $e -ne 0 ]; then echo "C$i EXIT $e"; rc=1; fi
done
exit $rc
