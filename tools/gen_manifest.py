#!/venv/bin/python
"""Regenerate /verif/MANIFEST.json from the table below (kept valid at all times)."""
import json
import os
import subprocess

ROOT = os.path.dirname(os.path.dirname(os.path.abspath(__file__)))

# id -> (technique, level text, level note, design ref)
CHECKS = {
    "C05": (
        "explicit-state exploration of the real interchange() over the bounded diagram universe, "
        "against a declarative interchange-axiom model with per-edge conformance replay",
        "Every diagram over the 9-shape alphabet up to the stated depth/width, every (i,j) in "
        "[-1,n]^2 and both left flags are executed on the implementation; each adjacent step must "
        "be an instance of the interchange axiom found by brute force in the reference model "
        "(else InterchangerError), the direct call must equal the fold of steps, and the result "
        "must keep dom/cod/box order/wiring graph/generic-matrix semantics and pass the C01 scan. "
        "Whole interchanger classes are walked by BFS with implementation-carried values, so all "
        "sequences of interchanges within the bound are covered.",
        "Trusted: numpy matmul/kron; the reference model in mc/ref.py (legal_moves, scan, wiring). "
        "Nothing is claimed beyond the completed depth/width bounds reported in the evidence.",
        "DESIGN.md 4/C05"),
    "C06": (
        "explicit-state exploration: interchanger classes enumerated by BFS in a reference move graph, "
        "normalize()/normal_form()/foliation() of the real code driven step by step on every member",
        "The bounded universe is partitioned into interchanger-equivalence classes with the reference "
        "model; for every member of every class and both left flags the normalize() generator is pulled "
        "step by step and each yielded diagram must be an edge of the reference move graph; normal_form "
        "must equal the last step, be idempotent, be unique per class when the box graph is connected, "
        "and raise NotImplementedError exactly when the driven trace revisits a state (only for "
        "disconnected box graphs). Foliation steps and flatten() must stay inside the class.",
        "Trusted: reference model (mc/ref.py legal_moves). Classes with more than class_cap members "
        "(disconnected scalars) are only checked for soundness up to the cap. Bounds in evidence.",
        "DESIGN.md 4/C06"),
    "C01": (
        "explicit-state BFS over operation chains of the real API (OpExplorer) with a well-typedness "
        "invariant evaluated on every reached state and, through the DISCOPY_VERIF hook, on every "
        "diagram constructed inside library code; exhaustive negative alphabet of ill-typed requests",
        "From every seed diagram of the bounded monoidal and rigid universes every enabled public "
        "operation with every argument choice (slices incl. reversed partial ones, dagger, interchange, "
        "every yielded normalize/foliate step, normal_form, foliation, flatten, then/tensor with a pool, "
        "permute, transpose, functor images, downgrade, subs) is executed up to the chain bound; the "
        "reference scan (boxes/offsets reach cod, each box finds its dom, layers agree) must hold on "
        "every value returned or internally constructed. Every ill-typed request of the negative "
        "alphabet must raise or return a value that passes the scan.",
        "Trusted: mc/ref.py scan. Other diagram classes are covered by the class sections listed in the "
        "evidence bounds and by the scans embedded in C04/C07/C10/C13/C17/C18. Bounds in evidence.",
        "DESIGN.md 4/C01"),
    "C10": (
        "exhaustive enumeration of all permutations / swap widths / malformed requests up to the bound "
        "in every class, executed on the real builders and checked with an independent label tracer",
        "Every permutation of length <= bound (all classes: monoidal, rigid, tensor, circuit, zx; via "
        "permutation(), permute() and the default domain), every swap(l, r) up to the width bound and "
        "every non-permutation/length mismatch up to length 3 are executed; the result must consist of "
        "adjacent swaps only, carry input wire i to position perm[i] (labels pushed through the swaps), "
        "have the permuted domain as codomain, pass the C01 scan and evaluate to the permutation matrix "
        "where the class can be evaluated; malformed requests must raise ValueError.",
        "Trusted: label tracer and permutation-matrix builder in mc/c10.py, numpy. The class of the "
        "returned diagram is deliberately not asserted.",
        "DESIGN.md 4/C10"),
    "C02": (
        "exhaustive enumeration of all values / ordered pairs / composable triples / parallel pairs of a "
        "per-class pool, each law evaluated with == on the values the real API returns",
        "In all eight diagram classes (cat, monoidal, rigid, tensor, circuit, zx, biclosed, cartesian) "
        "every pool value is checked for unit laws, dagger involution/types and every slice point and "
        "slice pair; every ordered pair for (f>>g)[::-1] == g[::-1]>>f[::-1] and f@g == f@Id >> Id@g; "
        "every composable triple and all triples of a sub-pool for associativity of >> and @; every "
        "parallel pair against every value for bilinearity of >>, @, [::-1] over + and the empty-sum "
        "unit. Bare boxes are compared through the wrapping one-box diagram, as the statement says.",
        "Pools are bounded (size in evidence). (f@g)[::-1] == f[::-1]@g[::-1] and associativity of + "
        "are not claimed by C02 and not checked. Categories without dagger (biclosed rules, cartesian "
        "boxes) skip dagger laws, counted as dagger_unsupported.",
        "DESIGN.md 4/C02"),
    "C03": (
        "exhaustive enumeration of every value and every ordered pair of a per-class pool of differently "
        "built types/boxes/diagrams/sums, == / hash / repr of the real classes against a reference "
        "structural reader",
        "For cat, monoidal and rigid: every pool value is checked for reflexivity, stable hash, "
        "eval(repr(v)) == v with identical structure, and box == Id(dom) >> box with equal hashes; every "
        "ordered pair for (a == b) iff the reference reader finds the same dom/cod/boxes/offsets, "
        "symmetry, a != b consistency, equal => equal hashes, dict lookup and functor-mapping lookup. "
        "Pools contain payload menus (None, ints, floats, bools, lists, dicts, falsy values), daggers, "
        "adjoint types of winding -2..2, cups/caps/swaps, sums, and up to five alternative constructions "
        "of every universe diagram.",
        "Known findings (hash of repr for numerically-equal names/payloads of different Python type and "
        "PRO vs Ty) are listed in known_findings.json by exact signature. String payloads excluded "
        "(constructor recursion, outside the listed properties).",
        "DESIGN.md 4/C03"),
    "C04": (
        "exhaustive enumeration of a family of functors (all object maps x arrow-map kinds x supply modes) "
        "times all source diagrams of the bounded universe, applied through the real Functor classes",
        "cat, monoidal and rigid functors: every object map from the source atoms into a menu of image "
        "types (empty, one wire, an adjoint wire, two wires, two adjoint wires), single-box and two-box "
        "arrow images, supplied as dict, as dict-backed callable and as total callable, are applied to every "
        "source diagram (asymmetric boxes, daggers, scalars, all orientations of cups/caps, swaps). Checked: "
        "dom/cod against a reference image of types with adjoints, C01 scan, every split point, identity, "
        "every layer against reference images (table, nested cups/caps, block swaps by label tracer), "
        "dagger, tensor and sums on pool pairs, images of all types of length <= 2 and their adjoints.",
        "== on returned diagrams is trusted (C03). Known finding: dagger of swaps with multi-wire images "
        "(known_findings.json). Bounds in evidence.",
        "DESIGN.md 4/C04"),
    "C07": (
        "explicit-state exploration of the bounded rigid universe with the normalize() generator of the "
        "real code driven step by step (RewriteExplorer) against reference wiring/linear-algebra models",
        "Every rigid diagram up to the depth/width bound that contains a cap (caps and cups of every adjoint "
        "pair of winding -2..2 in both orders, uniquely named polymorphic boxes with 0..2 inputs and 0..1 "
        "outputs), plus a directed family of left/right snakes with every interleaving of obstructions, is "
        "normalised with both flags. Every yielded step must pass the C01 scan, keep dom/cod and class, keep "
        "the wiring graph and loop count (equivalent to equal value under every tensor functor) and the "
        "exact generic-matrix value for dim 2 and 3, and be either one box moved by legal interchanges or "
        "the removal of one cap/cup pair certified by the reference wire follower; the final value has no "
        "yankable pair; only NotImplementedError may be raised, and only for disconnected box graphs.",
        "Trusted: reference follower / wiring / matrices in mc/ref.py and mc/c07.py; numpy. 'Satisfies a "
        "snake equation' is read type-wise (cup.dom == reversed cap.cod). Bounds in evidence.",
        "DESIGN.md 4/C07"),
    "C08": (
        "exhaustive enumeration of all dimension tuples / pairs / quadruples up to the bound with generic "
        "arrays, the real Tensor operations compared exactly with reference matrices",
        "For every (dom, cod) over {2,3}^<=3: stored data, dagger = conjugate transpose, identities, unit "
        "laws, Dim(1) dropping, cups/caps against index-by-index reference matrices and both snake "
        "equations; for every quadruple of types up to the pair bound: >> = matrix product, @ = Kronecker "
        "product, swap = block permutation matrix, naturality of swaps and the interchange law, all as exact "
        "equalities of Gaussian-integer matrices.",
        "Trusted: numpy matmul/kron/reshape/conj (tensordot/moveaxis, which the code under test uses, are "
        "not used by the reference). Dimensions are drawn from {2,3}; lengths bounded as in the evidence.",
        "DESIGN.md 4/C08"),
    "C09": (
        "exhaustive enumeration of (interpretation, diagram) pairs: all dimension assignments and supply "
        "modes x all source diagrams of the bounded universe, the real tensor.Functor / Diagram.eval "
        "compared exactly with a layer-by-layer reference evaluator",
        "(A) every rigid source diagram (asymmetric and daggered boxes, scalars, swaps, cups/caps) under "
        "every interpretation of the family (27 assignments of dimensions 1..3 to the atoms, as int or Dim, "
        "by dict or callable, plus multi-wire images): F(d).array must equal the product over layers of "
        "I (x) M(box) (x) I, with the right dom/cod, and be invariant under every legal interchange and "
        "under normal_form(); (B) every tensor.Diagram of boxes, daggers, swaps, spiders, cups, caps and "
        "polynomial bubbles: eval() equals the reference and the identity-on-arrays functor; sums add.",
        "Trusted: numpy kron/matmul (not tensordot/moveaxis). Cups/caps on atoms with non-palindromic "
        "multi-wire images are refused by the library and counted as out_of_scope_refusals.",
        "DESIGN.md 4/C09"),
    "C19": (
        "exhaustive enumeration of all cartesian diagrams up to the bound, called through the real "
        "PythonFunctor on symbolic inputs and compared with a reference wire machine",
        "Every cartesian diagram over boxes of every arity shape (0..2 -> 0..2) with injective symbolic "
        "functions plus SWAP/COPY/DISCARD up to the depth/width bound is called on distinct symbolic inputs; "
        "the result must equal what the wire machine computes (apply each box to the wires at its offset, "
        "splice outputs back) under the documented one-wire/tuple convention. Swap(l, r), Copy(n), Discard(n) "
        "for all widths up to the bound, and naturality of swap, copy and discard for every ordered pair of "
        "boxes of the alphabet, are checked on all symbolic inputs.",
        "Symbolic string outputs make equality of results equality of wiring terms. Values are atoms, never "
        "tuples (a tuple-valued wire is indistinguishable from two wires in the library's convention).",
        "DESIGN.md 4/C19"),
    "C11": (
        "exhaustive enumeration of all gates x grid phases, all pure circuits up to the bound and all "
        "rewirings, evaluated by the real Circuit.eval and compared with pytket's own unitaries",
        "Every named gate, every rotation and controlled rotation at every phase of the grid, controlled "
        "named gates, kets and bras of every bitstring of length <= 2 and scalars: eval() must be the "
        "standard matrix that pytket's Op.get_unitary() gives for the identically named operation (phase in "
        "full turns), and dagger().eval() its conjugate transpose. Every pure circuit up to the depth/width "
        "bound: eval() equals the ordered product of the reference matrices on the stated qubits, is unitary "
        "when built from unitaries, and commutes with dagger. Every rewire(g, a, b) on up to 5 qubits equals "
        "the gate embedded on qubits a and b.",
        "Trusted: pytket Op.get_unitary (ILO-BE), numpy. Tolerance 1e-9; phases on the stated grid only "
        "(entries are trigonometric polynomials of degree 1 in the phase).",
        "DESIGN.md 4/C11"),
    "C12": (
        "exhaustive enumeration of all circuits up to the bound over the full classical-quantum alphabet, "
        "the real cqmap.Functor / get_counts / measure compared with a reference superoperator algebra",
        "Every circuit up to the depth/width bound with bits and qubits interleaved (gates, kets, bras, "
        "bits, all four variants of Measure and of Encode, Discard and MixedState on bits and qubits, "
        "multi-qubit Measure/Discard/MixedState, Copy/Match, stochastic gates, pure/mixed/sqrt scalars, "
        "all swaps) from every initial type of width <= 2: eval(mixed=True) must equal the reference map on "
        "doubled wires (value and CQ type), CQMap.pure(eval()) for all-qubit pure circuits, the dagger must "
        "evaluate to the adjoint, and for circuits made of preparations, unitaries, measurements, discards "
        "and stochastic gates get_counts(), measure() and measure(mixed=True) must equal the reference "
        "probability distribution (which sums to one).",
        "Trusted: mc/qref.py (textbook definitions, numpy kron/matmul), pytket unitaries. Tolerance 1e-9. "
        "Thorough tier strides depth-3 circuits (reported as a cap).",
        "DESIGN.md 4/C12"),
    "C13": (
        "exhaustive enumeration of source circuits (export) and of tket command lists (import) up to the "
        "bound; the real to_tk/from_tk/get_counts/eval(backend) replayed against an exact simulator of the "
        "tket command list and an independent classical-quantum reference",
        "Export: every circuit up to the depth/width bound over the exportable alphabet (the universe is "
        "prefix closed, so the register bookkeeping is exercised at every intermediate layer), a directed "
        "family (prepare / post-select / measure in the middle, then a gate across it) and a tomography "
        "family (gates observed in the X, Y and Z bases): the exported tket circuit is run on the exact "
        "simulator and post-processed as documented (post-selection, scalar, post-processing) and must give "
        "the distribution of the circuit's own mixed evaluation (== the reference); the same through "
        "get_counts/eval with an exact backend, in batches, and after re-import. Import: every tket circuit "
        "over the supported ops up to the bound: from_tk(t) is well-typed, and both its output distribution "
        "and the qubit state before the closing discards equal the simulation of t.",
        "Trusted: pytket get_commands/Op.get_unitary, mc/tketsim.py, mc/qref.py. NotImplementedError is a "
        "refusal. Bounds and strides in the evidence.",
        "DESIGN.md 4/C13"),
    "C16": (
        "exhaustive enumeration of all supported gates x grid phases, all pure circuits and all ZX diagrams "
        "up to the bound; the real circuit2zx / dagger interpreted by an independent ZX reference",
        "Every supported gate at every phase of the grid, kets/bras of every bitstring of length <= 2, and "
        "every pure circuit up to the depth/width bound over that alphabet: the textbook interpretation of "
        "circuit2zx(c) must be one non-zero multiple of the product of the gates' standard matrices, with "
        "the same numbers of wires and a well-typed image. Every ZX diagram of Z/X spiders (all arities "
        "with <= 3 legs, three phases), H, SWAP and scalars up to the bound: the dagger denotes the "
        "conjugate transpose.",
        "Trusted: mc/qref.py ZX semantics, pytket unitaries; tolerance 1e-9; circuits denoting 0 are "
        "counted apart (proportionality undecidable).",
        "DESIGN.md 4/C16"),
    "C17": (
        "exhaustive enumeration of simple ZX diagrams (export) and of simple pyzx graphs built directly "
        "through pyzx (import) up to the bound; the real to_pyzx/from_pyzx compared through pyzx's own "
        "tensor semantics and the textbook ZX reference",
        "Export: every ZX diagram of the bounded universe (Z/X spiders of all arities, phases, H, SWAP, "
        "scalars) whose wiring graph is simple: pyzx's to_matrix(preserve_scalar=True) of to_pyzx(d) must "
        "equal the textbook value of d (vertex types, phases, Hadamard edges, order of inputs/outputs, "
        "scalar); importing it back must give a well-typed diagram with the same wires and the same matrix "
        "up to a scalar. Import: every graph of the enumerated family (<= 2 inputs/outputs, 1-3 spiders, "
        "every attachment, spider types, spider-spider edge set, simple/Hadamard labelling, three vertex "
        "numberings): same obligations against pyzx's matrix. Malformed boundaries must raise ValueError.",
        "Runs against the installed pyzx 0.10.6 through mc/pyzx_adapter.py (list-valued inputs/outputs, float "
        "phases, edge_type 0 for non-edges); pyzx's matrix convention is calibrated on a hand-built graph. "
        "Tolerance 1e-7.",
        "DESIGN.md 4/C17"),
    "C18": (
        "exhaustive enumeration of word sequences / grammars x all answers of the intercepted shuffle "
        "(deviation-style ChoiceExplorer with prefix replay) / rule boxes over nested slash types",
        "Pregroup: every word sequence up to the length bound over a 9-word vocabulary with adjoints and "
        "every target is parsed; each returned diagram (and each brute_force yield) must have empty dom, the "
        "target as cod, the words in order at the cumulated offsets, then only cups between adjacent "
        "(x, x.r) wires. CFG: discopy.grammar.cfg.random is replaced by a stub; for every grammar, start "
        "symbol and limit combination every sequence of shuffle answers (which eligible production comes "
        "first) is executed by prefix replay; every yielded sentence is replayed as a top-down leftmost "
        "derivation from the start symbol using only the given productions; max_sentences, "
        "remove_duplicates and not_twice are honoured. Biclosed: every FA/BA/FC/BC/FX/BX/Curry box over "
        "nested over/under types with composite and empty sides, CCG trees and cat2ty against reference "
        "parsers: the rigid image has the images of dom and cod and is well-typed.",
        "The shuffle stub reads the generator's locals to merge equivalent answers. Soundness of parses is "
        "checked, not completeness of the eager strategy. Bounds in evidence.",
        "DESIGN.md 4/C18"),
    "C14": (
        "exhaustive enumeration of parametrised boxes x expressions x substitutions x supply modes and of "
        "all two-box diagrams over that alphabet, the real subs/lambdify/eval/free_symbols compared on a "
        "value grid",
        "Every parametrised box class (rotations, controlled rotations and their daggers; pure, mixed and "
        "sqrt scalars; classical gates and their daggers; tensor boxes; ZX spiders and scalars) with every "
        "expression of the menu in two real symbols, under every substitution kind (float, int, Rational, "
        "symbol, expression, list of pairs, successive in both orders) and every two-box diagram with a "
        "parametrised box: subs-then-eval must equal eval-then-subs numerically on the value grid (pure and "
        "mixed), dom/cod/box classes/dagger flags/mixedness must be unchanged, free_symbols must be exactly "
        "the symbols of the box parameters before and after, lambdify(*syms)(*vals) must evaluate like "
        "subs(zip(syms, vals)) and leave no free symbol.",
        "Real sympy symbols; tolerance 1e-9; values on a 3-point grid per symbol (entries are analytic in the "
        "parameters). ZX diagrams are valued by the textbook semantics of the phases the library holds.",
        "DESIGN.md 4/C14"),
    "C15": (
        "exhaustive enumeration of parametrised circuits / tensor diagrams up to the bound x symbols x "
        "pure/mixed, the real grad/jacobian evaluated and compared with symbolic differentiation of the "
        "evaluation on a point grid",
        "Every diagram of the enumerated family (rotations and controlled rotations with affine and "
        "non-linear phases in two real symbols, daggers, pure/mixed/sqrt scalars, composed with every fixed "
        "or parametrised box that fits; tensor boxes and polynomial bubbles, also around composite "
        "diagrams), both symbols, pure (amplitude) and default parameter-shift (classical-quantum) "
        "gradients: grad(...).eval() must equal d/dvar of eval() at every grid point; a diagram without the "
        "symbol has the empty sum as gradient; jacobian blocks are the gradients in variable order.",
        "Oracle = sympy.diff of the symbolic evaluation, cross-checked by central finite differences (an "
        "oracle inconsistency aborts instead of reporting). NotImplementedError is a refusal. Known finding: "
        "pure scalars in default gradients (known_findings.json). Tolerance 1e-8.",
        "DESIGN.md 4/C15"),
    "C20": (
        "exhaustive enumeration of all diagrams of the shape universe up to the bound; the real "
        "diagram2nx / draw / diagramize checked against a replay of the scan and on the primitives a "
        "recording back-end receives",
        "Every diagram over boxes of arities 0..3 (scalars, states, effects, wide boxes above narrow gaps) "
        "up to the depth bound on up to 4 wires: the layout graph has exactly one node per input, output, "
        "box and port and exactly the edges the scan prescribes; at every height the open wires have "
        "strictly increasing x; wires between boxes are vertical; edges point downwards; every box lies "
        "strictly between its neighbouring wires; with a recording Backend passed through draw(backend=) "
        "no straight wire segment enters a polygon and no two segments cross. TikZ and matplotlib render "
        "every depth-<=2 diagram and samples of rigid/tensor/circuit/zx diagrams without error; diagramize "
        "of the function body generated from every depth-<=2 diagram gives the diagram back.",
        "Coordinates and requested primitives are checked, not pixels. matplotlib/Agg to a temp dir.",
        "DESIGN.md 4/C20"),
}

# what later strengthening rounds added to each check (appended to the level text; DESIGN.md 5 has the history)
ADDED = {
    "C01": "Also: the box zoo (mc/zoo.py: every public box constructor x flag variant and composite subclass of all nine classes) with 30 derived values each, a cross-class mixing grid (refused or well-typed), and an operand fingerprint around every transition.",
    "C02": "Also: every zoo value through all laws, n-ary then/tensor, a construction-history differential (values reached through slices, double daggers, recomposition used as operands), operands unchanged.",
    "C03": "Also: types built from objects of the other classes and values built on the no-argument identity.",
    "C04": "Also: arrow maps into two-term formal sums, a doubling functor on every zoo value of the free classes, second application, operand unchanged.",
    "C05": "Also: the call grid on zoo composites (subclasses with their own constructor, foliations) and on all 2/3-box products and wired pairs of zoo boxes of 8 classes.",
    "C06": "Also: class representatives as rigid diagrams, request histories on one object, members with an inserted snake, and a fork family (two states feeding a box, both orders) over the zoo of every class.",
    "C07": "Also: families with equal obstruction boxes, a cup directly above a cap, and two equal caps.",
    "C08": "Also: integer / object / symbolic entry kinds, n-ary products, results that do not alias their operands.",
    "C09": "Also: bubble functions whose return type depends on the entry, bubbles around composites, object arrays, sums with repeated terms.",
    "C10": "Also: the tensor-level swap matrix and digit / qudit wires in the circuit class.",
    "C11": "Also: every pure zoo box (user-defined and hand-built controlled gates) and result aliasing (the returned array is overwritten, the gate must evaluate the same).",
    "C12": "Also: every zoo box over bits and qubits, batched evaluation and counting, digits / qudits of dimension 2-4, result aliasing.",
    "C13": "Also: the documented switches of get_counts, counting compared directly with local evaluation, register-renaming and multi-period angle families, second export.",
    "C14": "Also: ordered and duplicate pairs, the library's own substitution on evaluated values, reuse of lambdified functions, free symbols inside bubbles.",
    "C15": "Also: the call without the mixed keyword on every single box.",
    "C16": "Also: every pure zoo box with an oracle for the documented gate set (a refusal is only accepted outside it), fresh-but-equal gates, daggers of whole circuits.",
    "C17": "Also: negative phases, export of daggers, second export.",
    "C18": "Also: plain monoidal targets, a CFG with rigid-typed productions, composition rules with mismatched middles, words with domains, several brute-force searches in one process.",
    "C19": "Also: payloads of every Python kind, the Function values themselves (n-ary products and composites), a call log (every box function called exactly once), 1-tuple outputs.",
    "C20": "Also: both back-ends on every zoo value, bubbles with re-declared types, layout of opened bubbles.",
}

PENDING_REASON = ("check not built yet in this session (planned: bounded exhaustive exploration as in "
                  "DESIGN.md section 4); not claimed until its check exists and is silent on the unchanged tree")


def main():
    props = [json.loads(l) for l in open(os.path.join(ROOT, "properties.jsonl"))]
    hooks_commits = []
    p = os.path.join(ROOT, "hook_commits.txt")
    if os.path.exists(p):
        hooks_commits = [l.split()[0] for l in open(p) if l.strip()]
    na_extra = {}
    p = os.path.join(ROOT, "not_applicable.json")
    if os.path.exists(p):
        na_extra = json.load(open(p))
    checks, na = [], []
    for pr in props:
        pid = pr["id"]
        if pid in CHECKS:
            tech, text, note, ref = CHECKS[pid]
            checks.append({
                "property_id": pid,
                "quick_cmd": "/venv/bin/python -m mc.run %s --tier quick" % pid,
                "thorough_cmd": "/venv/bin/python -m mc.run %s --tier thorough" % pid,
                "evidence_file": "/verif/evidence/%s.json" % pid,
                "replay_cmd_template": "/venv/bin/python -m mc.replay {path}",
                "engine": "mc",
                "level_claimed": {"category": "model_checking", "text": text + (" " + ADDED[pid] if pid in ADDED else ""),
                                  "design_ref": ref},
                "level_note": note,
                "technique": tech,
            })
        else:
            na.append({"property_id": pid, "reason": na_extra.get(pid, PENDING_REASON)})
    man = {
        "version": 1,
        "setup_cmd": "/venv/bin/python -m compileall -q /verif/mc",
        "hooks": {
            "guard": "DISCOPY_VERIF",
            "enable": "checks export DISCOPY_VERIF=1 before importing discopy from /repo (pure Python, "
                      "nothing to build); with the variable unset the hook code is inert",
            "baseline_off_cmd": "cd /repo && env -u DISCOPY_VERIF /venv/bin/python -m pytest -ra -q "
                                "-p no:cacheprovider --timeout=900 --continue-on-collection-errors",
            "source_commits": hooks_commits,
            "add_only": True,
        },
        "engines": [{
            "name": "mc", "path": "/verif/mc",
            "serves_properties": sorted(CHECKS),
            "kind_free_text": "hand-written explicit-state / bounded-exhaustive explorer in Python driving "
                              "the real discopy API, with pure-Python reference models (mc/ref.py) and "
                              "per-case replay (mc/replay.py)",
        }],
        "checks": checks,
        "not_applicable": na,
        "notes": "Run from cwd=/verif. Each check imports discopy from /repo's working tree (editable "
                 "install; /repo is also put first on sys.path), writes /verif/evidence/<id>.json and, on a "
                 "violation, /verif/replays/<id>/<n>.json. known_findings.json lists recorded defects.",
    }
    with open(os.path.join(ROOT, "MANIFEST.json"), "w") as f:
        json.dump(man, f, indent=1)
    r = subprocess.run(["python3-vt", "-c", "import json,jsonschema;"
                        "jsonschema.validate(json.load(open('%s/MANIFEST.json')),"
                        "json.load(open('/root/.vp/MANIFEST.schema.json')));print('MANIFEST valid')" % ROOT],
                       capture_output=True, text=True)
    print(r.stdout.strip() or r.stderr[-500:])


if __name__ == "__main__":
    main()
