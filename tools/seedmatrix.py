#!/venv/bin/python
"""Run every kept seed against the quick check of its property (applied to /repo, then reverted)
and write /verif/DETECTION.md + seeded/<id>/detection.json."""
import json, os, subprocess, sys, glob, time
os.chdir("/verif")
rows = []
only = sys.argv[1:]
for d in sorted(glob.glob("seeded/C*")):
    sid = os.path.basename(d)
    if only and sid not in only and sid.split("-")[0] not in only:
        continue
    pid = sid.split("-")[0]
    meta = json.load(open(d + "/meta.json"))
    assert subprocess.run("git -C /repo status --porcelain -uno", shell=True, capture_output=True, text=True).stdout.strip() == ""
    r = subprocess.run(["git", "-C", "/repo", "apply", os.path.abspath(d + "/patch.diff")], capture_output=True, text=True)
    if r.returncode:
        rows.append((sid, pid, "PATCH DOES NOT APPLY", "", meta.get("summary", "")))
        continue
    t = time.time()
    try:
        r = subprocess.run(["/venv/bin/python", "-m", "mc.run", pid, "--tier", "quick"], capture_output=True, text=True)
    finally:
        subprocess.run(["git", "-C", "/repo", "checkout", "--", "."], check=True)
    lines = r.stdout.splitlines()
    viol = [l for l in lines if l.startswith("VIOLATION")]
    sig = next((l.strip() for l in lines if l.strip().startswith("signature=")), "")
    first = ""
    for i, l in enumerate(lines):
        if l.strip().startswith("signature=") and i + 1 < len(lines):
            first = lines[i + 1].strip()[:200]
            break
    verdict = "DETECTED" if r.returncode == 1 and viol else ("MISSED" if r.returncode == 0 else "ERROR exit %d" % r.returncode)
    det = dict(seed=sid, property=pid, verdict=verdict, exit=r.returncode, violations=len(viol), signature=sig,
               first=first, wall_s=round(time.time() - t, 1))
    json.dump(det, open(d + "/detection.json", "w"), indent=1)
    rows.append((sid, pid, verdict, sig.replace("signature=", ""), meta.get("summary", "")))
    print(sid, verdict, sig, flush=True)
if not only:
    with open("DETECTION.md", "w") as f:
        f.write("# Seeded changes and which check catches them\n\nEach seed was written by an independent sub-agent given only "
                "the property text and a scratch worktree; it keeps the 219 baseline tests green and its demo fails with the "
                "patch and passes without (confirmed by tools/verify_seed.py).  Verdicts below are from `tools/seedmatrix.py`: "
                "the patch is applied to /repo, the *quick* check of the property is run, the patch is reverted.\n\n"
                "| seed | property | quick check | first signature | what the change does |\n|---|---|---|---|---|\n")
        for sid, pid, verdict, sig, summ in rows:
            f.write("| %s | %s | %s | `%s` | %s |\n" % (sid, pid, verdict, sig, (summ or "").replace("|", "/")[:300]))
print("done")
