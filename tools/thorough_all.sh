#!/bin/bash
# run every thorough tier once (used through `vp run --with-repo`); DISCOPY_REPO points the checks at the repo snapshot
export DISCOPY_REPO=${VP_RUN_REPO:-/repo}
export VERIF_PROCS=${VERIF_PROCS:-10}
for i in ${THOROUGH_IDS:-10 08 16 19 20 18 17 11 05 06 07 02 03 09 04 01 12 15 14 13}; do
  echo "=== C$i $(date +%H:%M:%S)"
  VERIF_DUMP=dump_C$i.json timeout 7200 /venv/bin/python -m mc.run C$i --tier thorough 2>&1 | grep -E "^C$i|^VIOLATION|signature=|KNOWN|Error|Traceback" | cut -c1-300 | head -40
done
echo "=== done $(date +%H:%M:%S)"
