#!/venv/bin/python
"""Seed matrix in parallel lanes: every kept seed is applied to a scratch worktree of /repo's HEAD (one per
lane, under /tmp/wt/lane<k>), the *quick* check of its property is run against that copy (DISCOPY_REPO) with
evidence/replays redirected (VERIF_OUT) so that nothing committed is touched, the worktree is restored.
Lanes take whole properties, so two lanes never run the same check at once.  Writes seeded/<id>/detection.json
and DETECTION.md.   usage: seedlanes.py [--lanes N] [--procs P] [PID-or-seed ...]"""
import json, os, subprocess, sys, glob, time, threading
os.chdir("/verif")
args = sys.argv[1:]
lanes = int(args[args.index("--lanes") + 1]) if "--lanes" in args else 4
procs = int(args[args.index("--procs") + 1]) if "--procs" in args else 4
only = [a for i, a in enumerate(args) if not a.startswith("--") and (i == 0 or args[i - 1] not in ("--lanes", "--procs"))]
head = subprocess.run(["git", "-C", "/repo", "rev-parse", "HEAD"], capture_output=True, text=True).stdout.strip()
assert subprocess.run("git -C /repo status --porcelain -uno", shell=True, capture_output=True, text=True).stdout.strip() == "", "repo dirty"
seeds = {}
for d in sorted(glob.glob("seeded/C*")):
    sid = os.path.basename(d)
    if only and sid not in only and sid.split("-")[0] not in only:
        continue
    seeds.setdefault(sid.split("-")[0], []).append(sid)
queue = sorted(seeds, key=lambda p: -len(seeds[p]))
lock = threading.Lock()
rows = {}


def lane(k):
    wt = "/tmp/wt/lane%d" % k
    if not os.path.isdir(wt):
        subprocess.run(["git", "-C", "/repo", "worktree", "add", "-q", "--detach", wt, head], check=True)
    subprocess.run(["git", "-C", wt, "checkout", "-q", "--detach", head], check=True)
    subprocess.run(["git", "-C", wt, "checkout", "--", "."], check=True)
    out = "/tmp/wt/lane%d_out" % k
    while True:
        with lock:
            if not queue:
                return
            pid = queue.pop(0)
        for sid in seeds[pid]:
            d = "seeded/" + sid
            meta = json.load(open(d + "/meta.json"))
            r = subprocess.run(["git", "-C", wt, "apply", os.path.abspath(d + "/patch.diff")], capture_output=True, text=True)
            if r.returncode:
                with lock:
                    rows[sid] = (sid, pid, "PATCH DOES NOT APPLY", "", meta.get("summary", ""))
                    print(sid, "PATCH DOES NOT APPLY", flush=True)
                continue
            t = time.time()
            try:
                r = subprocess.run(["/venv/bin/python", "-m", "mc.run", pid, "--tier", "quick"], capture_output=True, text=True,
                                   env=dict(os.environ, DISCOPY_REPO=wt, VERIF_OUT=out, VERIF_PROCS=str(procs)))
            finally:
                subprocess.run(["git", "-C", wt, "checkout", "--", "."], check=True)
            lines = r.stdout.splitlines()
            viol = [l for l in lines if l.startswith("VIOLATION")]
            sig = next((l.strip() for l in lines if l.strip().startswith("signature=")), "")
            first = ""
            for i, l in enumerate(lines):
                if l.strip().startswith("signature=") and i + 1 < len(lines):
                    first = lines[i + 1].strip()[:200]
                    break
            verdict = "DETECTED" if r.returncode == 1 and viol else ("MISSED" if r.returncode == 0 else "ERROR exit %d" % r.returncode)
            json.dump(dict(seed=sid, property=pid, verdict=verdict, exit=r.returncode, violations=len(viol), signature=sig,
                           first=first, wall_s=round(time.time() - t, 1), library_head=head),
                      open(d + "/detection.json", "w"), indent=1)
            with lock:
                rows[sid] = (sid, pid, verdict, sig.replace("signature=", ""), meta.get("summary", ""))
                print(sid, verdict, sig, "%.0fs" % (time.time() - t), flush=True)


ts = [threading.Thread(target=lane, args=(k,)) for k in range(lanes)]
[t.start() for t in ts]
[t.join() for t in ts]
for k in range(lanes):
    subprocess.run(["git", "-C", "/repo", "worktree", "remove", "--force", "/tmp/wt/lane%d" % k])
    subprocess.run(["rm", "-rf", "/tmp/wt/lane%d_out" % k])
if not only:
    with open("DETECTION.md", "w") as f:
        f.write("# Seeded changes and which check catches them\n\nEach seed was written by an independent sub-agent given only "
                "the property text and a scratch worktree; it keeps the 219 baseline tests green and its demo fails with the "
                "patch and passes without (confirmed by tools/verify_seed.py).  Verdicts below are from `tools/seedlanes.py`: "
                "the patch is applied to a scratch worktree of /repo's HEAD (%s), the *quick* check of the property is run "
                "against it, the worktree is restored.\n\n"
                "| seed | property | quick check | first signature | what the change does |\n|---|---|---|---|---|\n" % head[:7])
        for sid in sorted(rows):
            _, pid, verdict, sig, summ = rows[sid]
            f.write("| %s | %s | %s | `%s` | %s |\n" % (sid, pid, verdict, sig, (summ or "").replace("|", "/").replace("\n", " ")[:300]))
bad = [r for r in rows.values() if r[2] != "DETECTED"]
print("done: %d seeds, %d not detected" % (len(rows), len(bad)))
for r in bad:
    print("  ", r[0], r[2])
