#!/venv/bin/python
"""Run the pinned baseline in <dir> (default /repo) and compare with BASELINE.json stable_pass.
Prints 'BASELINE ok (219/219)' or the list of stable tests that no longer pass."""
import json, subprocess, sys, tempfile, os, xml.etree.ElementTree as ET
d = sys.argv[1] if len(sys.argv) > 1 else "/repo"
base = json.load(open("/root/.vp/BASELINE.json"))
with tempfile.TemporaryDirectory() as tmp:
    x = os.path.join(tmp, "j.xml")
    env = dict(os.environ, PYTHONPATH=d)
    env.pop("DISCOPY_VERIF", None)
    subprocess.run(["/venv/bin/python", "-m", "pytest", "-q", "-p", "no:cacheprovider", "--timeout=900",
                    "--continue-on-collection-errors", "--junitxml=" + x], cwd=d, env=env,
                   capture_output=True, text=True)
    passed = set()
    for tc in ET.parse(x).getroot().iter("testcase"):
        if not any(c.tag in ("failure", "error", "skipped") for c in tc):
            passed.add(tc.get("classname") + "::" + tc.get("name"))
missing = [t for t in base["stable_pass"] if t not in passed]
print("BASELINE %s (%d/%d)" % ("ok" if not missing else "BROKEN", len(base["stable_pass"]) - len(missing), len(base["stable_pass"])))
for t in missing:
    print("  no longer passes:", t)
sys.exit(1 if missing else 0)
