#!/venv/bin/python
"""Like mutrun.py but without touching /repo: the patch is applied to a scratch worktree of /repo's HEAD
(/tmp/wt/mut, created on demand, always reverted) and the checks run with DISCOPY_REPO pointing at it.
usage: mutwt.py <patch> <ID> [<ID>...]   (for iteration while /repo is busy; DETECTION.md comes from seedmatrix.py)"""
import subprocess, sys, os
patch, ids = os.path.abspath(sys.argv[1]), sys.argv[2:]
wt = os.environ.get("MUT_WT", "/tmp/wt/mut")
head = subprocess.run(["git", "-C", "/repo", "rev-parse", "HEAD"], capture_output=True, text=True).stdout.strip()
if not os.path.isdir(wt):
    subprocess.run(["git", "-C", "/repo", "worktree", "add", "-q", "--detach", wt, head], check=True)
subprocess.run(["git", "-C", wt, "checkout", "-q", "--detach", head], check=True)
subprocess.run(["git", "-C", wt, "checkout", "--", "."], check=True)
subprocess.run(["git", "-C", wt, "apply", patch], check=True)
try:
    for pid in ids:
        r = subprocess.run(["/venv/bin/python", "-m", "mc.run", pid, "--tier", os.environ.get("TIER", "quick")], cwd="/verif",
                           capture_output=True, text=True, env=dict(os.environ, DISCOPY_REPO=wt, VERIF_NO_EVIDENCE="1"))
        lines = r.stdout.splitlines()
        print("%s exit=%d viol=%d" % (pid, r.returncode, sum(l.startswith("VIOLATION") for l in lines)))
        for l in [l for l in lines if not l.startswith("KNOWN")][:4]:
            print("   ", l[:300])
        if r.returncode not in (0, 1):
            print(r.stderr[-1500:])
finally:
    subprocess.run(["git", "-C", wt, "checkout", "--", "."], check=True)
