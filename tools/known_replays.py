#!/venv/bin/python
"""For every status=known entry of known_findings.json write /verif/known/<n>.json: the case and parameters of
one violation with that signature (taken from a VERIF_DUMP of the quick check), replayable with
`python -m mc.replay /verif/known/<n>.json` (exit 1 = the finding still reproduces)."""
import json, os, subprocess, sys
os.chdir("/verif")
k = json.load(open("known_findings.json"))
known = [f for f in k["findings"] if f["status"] == "known"]
os.makedirs("known", exist_ok=True)
by_prop = {}
for f in known:
    by_prop.setdefault(f["property"], []).append(f)
n = 0
for pid, fs in sorted(by_prop.items()):
    dump = "/tmp/known_%s.json" % pid
    subprocess.run(["/venv/bin/python", "-m", "mc.run", pid], env=dict(os.environ, VERIF_DUMP=dump), capture_output=True)
    vs = json.load(open(dump))
    for f in fs:
        v = next((v for v in vs if v["signature"] == f["signature"]), None)
        if v is None:
            print("NOT REPRODUCED", f["signature"]); continue
        path = "known/%s.json" % f["signature"].replace(":", "_").replace("|", "+").replace("/", "_")
        json.dump(dict(property=pid, signature=f["signature"], what=v["what"], case=v["case"], params=v["params"]),
                  open(path, "w"), indent=1)
        f["replay"] = "/verif/" + path
        n += 1
json.dump(k, open("known_findings.json", "w"), indent=1)
print("wrote", n, "replay files")
