#!/venv/bin/python
"""verify_seed.py <PID>: confirm sub-agent seeds in /tmp/wt/<PID>/SEED/{a,b}: patch applies to the pinned
commit, baseline stays 219/219, demo fails with the patch and passes without.  Confirmed seeds are
copied to /verif/seeded/<PID>-<x>/ (patch.diff, demo.py, meta.json)."""
import json, os, shutil, subprocess, sys
pid = sys.argv[1]
wt = "/tmp/wt/" + pid
def sh(cmd, **kw):
    return subprocess.run(cmd, shell=True, capture_output=True, text=True, **kw)
for x in sorted(os.listdir(wt + "/SEED")):
    sd = "%s/SEED/%s" % (wt, x)
    if not os.path.exists(sd + "/patch.diff"):
        continue
    sh("git -C %s checkout -- discopy test" % wt)
    ran = []
    r = sh("git -C %s apply %s/patch.diff" % (wt, sd))
    if r.returncode:
        print(pid, x, "PATCH DOES NOT APPLY", r.stderr[:200]); continue
    files = sh("git -C %s diff --stat" % wt).stdout.strip().splitlines()
    b = sh("/venv/bin/python /verif/tools/baseline.py %s" % wt)
    ran.append("baseline with patch: " + b.stdout.strip().splitlines()[0])
    env = dict(os.environ, PYTHONPATH=wt)
    d1 = subprocess.run(["/venv/bin/python", sd + "/demo.py"], cwd=wt, env=env, capture_output=True, text=True)
    ran.append("demo with patch: exit %d" % d1.returncode)
    sh("git -C %s checkout -- discopy test" % wt)
    d0 = subprocess.run(["/venv/bin/python", sd + "/demo.py"], cwd=wt, env=env, capture_output=True, text=True)
    ran.append("demo without patch: exit %d" % d0.returncode)
    ok = b.returncode == 0 and d1.returncode != 0 and d0.returncode == 0
    print(pid, x, "CONFIRMED" if ok else "REJECTED", ran, files[-1] if files else "")
    if not ok:
        print((d1.stderr or d1.stdout)[-300:]); continue
    letters = "abcdefghijklmnopqrstuvwxyz"
    used = {d.split("-")[1] for d in os.listdir("/verif/seeded") + os.listdir("/verif/seeded/_obsolete") if d.startswith(pid + "-")}
    name = next(l for l in letters if l not in used)
    dst = "/verif/seeded/%s-%s" % (pid, name)
    os.makedirs(dst, exist_ok=True)
    print("   kept as", dst)
    shutil.copy(sd + "/patch.diff", dst); shutil.copy(sd + "/demo.py", dst)
    meta = json.load(open(sd + "/meta.json"))
    meta = {"property": pid, "summary": meta.get("summary"), "needs": meta.get("needs"),
            "author": "independent sub-agent given only the property text and a scratch worktree",
            "confirmed_by_me": ran, "demo_failure_tail": (d1.stderr or d1.stdout).strip()[-400:]}
    json.dump(meta, open(dst + "/meta.json", "w"), indent=1)
