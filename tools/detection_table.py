#!/venv/bin/python
"""Rebuild DETECTION.md from seeded/*/detection.json (written by seedlanes.py / seedmatrix.py)."""
import json, glob, os
os.chdir("/verif")
rows = []
for d in sorted(glob.glob("seeded/C*")):
    det, meta = json.load(open(d + "/detection.json")), json.load(open(d + "/meta.json"))
    rows.append((det["seed"], det["property"], det["verdict"], det.get("signature", "").replace("signature=", ""),
                 meta.get("summary", ""), det.get("library_head", "")))
heads = sorted({r[5][:7] for r in rows if r[5]})
with open("DETECTION.md", "w") as f:
    f.write("# Seeded changes and which check catches them\n\nEach seed was written by an independent sub-agent given only "
            "the property text and a scratch worktree; it keeps the 219 baseline tests green and its demo fails with the "
            "patch and passes without (confirmed by tools/verify_seed.py).  Verdicts below are from `tools/seedlanes.py`: "
            "the patch is applied to a scratch worktree of /repo's HEAD (%s), the *quick* check of the property is run "
            "against it, the worktree is restored.  %d seeds, %d detected.\n\n"
            "| seed | property | quick check | first signature | what the change does |\n|---|---|---|---|---|\n"
            % (", ".join(heads), len(rows), sum(r[2] == "DETECTED" for r in rows)))
    for sid, pid, verdict, sig, summ, _ in rows:
        f.write("| %s | %s | %s | `%s` | %s |\n" % (sid, pid, verdict, sig, (summ or "").replace("|", "/").replace("\n", " ")[:300]))
print(len(rows), "rows,", sum(r[2] == "DETECTED" for r in rows), "detected")
