#!/venv/bin/python
"""Apply a patch to /repo, run quick checks, always revert.  usage: mutrun.py <patch> <ID> [<ID>...] [--baseline]"""
import subprocess, sys, os
patch, ids = sys.argv[1], [a for a in sys.argv[2:] if not a.startswith("--")]
baseline = "--baseline" in sys.argv
assert subprocess.run(["git", "-C", "/repo", "status", "--porcelain", "-uno"], capture_output=True, text=True).stdout.strip() == "", "repo dirty"
subprocess.run(["git", "-C", "/repo", "apply", os.path.abspath(patch)], check=True)
try:
    if baseline:
        r = subprocess.run(["/verif/tools/baseline.py"], capture_output=True, text=True)
        print(r.stdout.strip())
    for pid in ids:
        r = subprocess.run(["/venv/bin/python", "-m", "mc.run", pid, "--tier", os.environ.get("TIER", "quick")], cwd="/verif", capture_output=True, text=True)
        lines = [l for l in r.stdout.splitlines() if l.startswith(("VIOLATION", "KNOWN", pid))]
        print("%s exit=%d viol=%d" % (pid, r.returncode, sum(l.startswith("VIOLATION") for l in lines)))
        for l in r.stdout.splitlines()[:6]:
            print("   ", l[:300])
        if r.returncode not in (0, 1) or (r.returncode == 1 and not any(l.startswith("VIOLATION") for l in lines)):
            print(r.stderr[-1500:])
finally:
    subprocess.run(["git", "-C", "/repo", "checkout", "--", "."], check=True)
    subprocess.run("git -C /repo status --porcelain -uno", shell=True)
